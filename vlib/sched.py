"""Deterministic thread scheduler: the harness owns the interleaving.

Each worker thread runs under sys.settrace; at every 'line' event inside the chosen source files the thread
reaches a switch point.  Exactly one thread holds the token at any time.  A generated list of
(thread choice, run length) pairs decides, at switch points, which thread advances next and for how many
line events.  The schedule is therefore a plain value: it shrinks and replays.
"""
import os
import sys
import threading


class Scheduler:
    def __init__(self, plan, files, timeout=120.0):
        self.plan = list(plan)            # [(choice:int, run_length:int), ...]
        self.files = set(files)
        self.timeout = timeout
        self.pos = 0
        self.budget = 0
        self.sems = {}
        self.alive = []
        self.switches = 0
        self.switch_sites = set()
        self.points = 0
        self.errors = {}
        self.results = {}
        self.lock = threading.Lock()
        self.deadlock = False

    # -- scheduling decisions ---------------------------------------------------------------
    def _pick(self, me):
        """Called by the token holder. Returns the thread that runs next (may be `me`)."""
        if not self.alive:
            return None
        if self.plan and self.pos < 50 * len(self.plan):
            choice, run = self.plan[self.pos % len(self.plan)]   # the plan is cycled: switching never dries up
            self.pos += 1
            self.budget = max(1, int(run))
            return self.alive[choice % len(self.alive)]
        self.budget = 1 << 30
        return me if me in self.alive else self.alive[0]

    def _handoff(self, me, nxt):
        if nxt is None or nxt == me:
            return
        self.switches += 1
        self.sems[nxt].release()
        if me in self.alive:
            if not self.sems[me].acquire(timeout=self.timeout):
                self.deadlock = True
                raise RuntimeError("scheduler: thread %r never got the token back" % (me,))

    def switch_point(self, me, site=None):
        self.points += 1
        self.budget -= 1
        if self.budget > 0:
            return
        nxt = self._pick(me)
        if nxt != me and site is not None:
            self.switch_sites.add(site)
        self._handoff(me, nxt)

    # -- thread bodies ------------------------------------------------------------------------
    def _tracer_for(self, me):
        files = self.files

        def local(frame, event, arg):
            if event == "line":
                self.switch_point(me, (os.path.basename(frame.f_code.co_filename), frame.f_code.co_name))
            return local

        def glob(frame, event, arg):
            if event == "call" and frame.f_code.co_filename in files:
                return local
            return None
        return glob

    def _body(self, me, fn):
        if not self.sems[me].acquire(timeout=self.timeout):
            self.deadlock = True
            return
        sys.settrace(self._tracer_for(me))
        try:
            self.results[me] = fn()
        except BaseException as e:  # noqa: BLE001
            self.errors[me] = e
        finally:
            sys.settrace(None)
            self.alive.remove(me)
            nxt = self._pick(None) if self.alive else None
            if nxt is not None:
                self.switches += 1
                self.sems[nxt].release()

    def run(self, thunks):
        """thunks: list of zero-argument callables, one per thread. Returns (results, errors)."""
        ids = list(range(len(thunks)))
        self.alive = list(ids)
        self.sems = {i: threading.Semaphore(0) for i in ids}
        threads = [threading.Thread(target=self._body, args=(i, thunks[i]), daemon=True) for i in ids]
        for t in threads:
            t.start()
        first = self._pick(None)
        self.sems[first].release()
        for t in threads:
            t.join(self.timeout)
            if t.is_alive():
                self.deadlock = True
        if self.deadlock:
            raise RuntimeError("scheduler dead-locked or timed out")
        return self.results, self.errors
