"""Builder for `cold-start-threads` clauses: a fresh interpreter per case whose first library calls run on 2..3 threads
under the deterministic scheduler (vlib/coldrun.py).  A property supplies a strategy of items and a function
item -> (call spec, expected encoded result, description)."""
from hypothesis import strategies as st

from vlib.engine import Clause, Violation


def enc(v):
    if isinstance(v, (bytes, bytearray)):
        return {"hex": bytes(v).hex()}
    if isinstance(v, (list, tuple)):
        return [enc(x) for x in v]
    return v


def cold_clause(prop_id, items, build, what, n_quick=48, n_thorough=1500):
    from vlib import threads as T

    def gen(tier):
        return st.fixed_dictionaries({"threads": st.lists(st.lists(items, min_size=1, max_size=3), min_size=2, max_size=3),
                                      "plan": T.plans(max_run=40)})

    def check(case, ctx):
        from vlib import coldrun
        threads, wants = [], []
        for its in case["threads"]:
            calls, exp = [], []
            for it in its:
                spec, want, desc = build(it)
                calls.append(spec)
                exp.append((desc, want))
            threads.append(calls)
            wants.append(exp)
        out = coldrun.run_case(threads, case["plan"])
        ctx.count("switches", out["switches"])
        ctx.nontrivial = out["switches"] >= 2
        if out["errors"]:
            raise Violation("%s/cold-start/crashed" % prop_id, "thread raised %r" % (out["errors"],))
        for t, exp in enumerate(wants):
            for (desc, want), got in zip(exp, out["results"][str(t)]):
                if got[0] != "ok" or got[1] != want:
                    raise Violation("%s/cold-start/first-use-differs" % prop_id, "in a fresh interpreter whose first library calls "
                                    "run on %d threads at once, %s gave %r, expected %r" % (len(threads), desc, got, want))
    return Clause("cold-start-threads", check,
                  "one fresh interpreter per case: its first 1..3 calls per thread (%s) run on 2..3 threads at once under the "
                  "deterministic scheduler - lazily built module state is half-built only once per process; every result "
                  "against the reference; non-trivial = >= 2 thread switches (measured)" % what,
                  gen=gen, n={"quick": n_quick, "thorough": n_thorough}, shards={"quick": 16, "thorough": 16})
