"""C05 — Every address is the standard encoding of the right script on the right network."""
import hashlib
import json
import os

from hypothesis import strategies as st

from vlib import strategies as S
from vlib.engine import Clause, Violation
from vlib.ref import classify as C
from vlib.ref import hashes, secp
from vlib.util import call, expect_eq

PROPERTY_ID = "C05"
OPTIMIZED = ['addresses', 'scripts', 'hash160']   # clauses run a second time under `python -O` (assert statements stripped)
RULE = ("keys from the scalar mixture plus a frozen table of 154 scalars whose public x has a leading zero byte; both "
        "networks; private and public node forms; the five wallet address methods and PublicKey.address in a "
        "generated request order on one key object; every string decoded by independent Base58Check/Bech32 decoders "
        "and compared with hashlib-computed hashes of the standard scripts")
ASSUMPTIONS = ["hashlib's OpenSSL RIPEMD-160 (cross-checked against an independent pure implementation at start-up)",
               "uncompressed keys are judged for P2PKH only (the statement's list)"]

with open(os.path.join(os.path.dirname(os.path.dirname(os.path.abspath(__file__))), "ref", "lzkeys.json")) as _f:
    LZ = json.load(_f)
LZ_KEYS = [e["k"] for e in LZ]
with open(os.path.join(os.path.dirname(os.path.dirname(os.path.abspath(__file__))), "ref", "h160zero_keys.json")) as _f:
    HZ_KEYS = [e["k"] for e in json.load(_f)]   # HASH160 of the compressed or uncompressed key starts with 0x00
KINDS = ["p2pkh", "p2wpkh", "p2sh_p2wpkh", "p2wsh", "p2sh_p2wsh"]


def _impl():
    from btc_hd_wallet.base_wallet import BaseWallet
    from btc_hd_wallet.bip32 import PrvKeyNode, PubKeyNode
    from btc_hd_wallet.keys import PublicKey
    return BaseWallet, PrvKeyNode, PubKeyNode, PublicKey


def expected(pt, testnet):
    sec = secp.ser_c(pt)
    h = hashes.hash160(sec)
    ws = b"\x51\x21" + sec + b"\x51\xae"
    wsh = hashlib.sha256(ws).digest()
    net = "test" if testnet else "main"
    p2sh_v = 0xC4 if testnet else 0x05
    return {
        "p2pkh": ("p2pkh", net, 0x6F if testnet else 0x00, h),
        "p2wpkh": ("segwit", net, 0, h),
        "p2sh_p2wpkh": ("p2sh", net, p2sh_v, hashes.hash160(b"\x00\x14" + h)),
        "p2wsh": ("segwit", net, 0, wsh),
        "p2sh_p2wsh": ("p2sh", net, p2sh_v, hashes.hash160(b"\x00\x20" + wsh)),
        "p2pkh_uncompressed": ("p2pkh", net, 0x6F if testnet else 0x00, hashes.hash160(secp.ser_u(pt))),
    }


def judge(sig, what, addr, exp):
    kind, net, ver, h = exp
    if not isinstance(addr, str):
        raise Violation(sig + "/not-a-string", "%s returned %r" % (what, addr))
    c = C.classify(addr)
    if c["kind"] != kind:
        raise Violation(sig + "/wrong-encoding", "%s = %s decodes as %s, expected a %s address" % (what, addr, c["kind"], kind))
    if c["net"] != net:
        raise Violation(sig + "/wrong-network", "%s = %s is a %snet string, wallet is %snet" % (what, addr, c["net"], net))
    if kind == "segwit":
        if c["witver"] != ver or c["program"] != h:
            raise Violation(sig + "/wrong-program", "%s = %s -> v%d %s, expected v%d %s"
                            % (what, addr, c["witver"], c["program"].hex(), ver, h.hex()))
    else:
        if c["version"] != ver:
            raise Violation(sig + "/wrong-version-byte", "%s = %s has version byte %#x, expected %#x" % (what, addr, c["version"], ver))
        if c["hash"] != h:
            raise Violation(sig + "/wrong-hash", "%s = %s carries %s, expected %s" % (what, addr, c["hash"].hex(), h.hex()))


def gen_addr(tier):
    return st.fixed_dictionaries({
        "k": st.one_of(S.scalars(), st.sampled_from(LZ_KEYS), st.sampled_from(HZ_KEYS)), "testnet": st.booleans(),
        "form": st.sampled_from(["prv", "pub", "pub-uncompressed", "prv", "pub", "pub-parsed-other-network", "prv-parsed-other-network"]),
        "nodeflag": st.sampled_from(["same", "same", "other"]),
        "order": st.permutations(KINDS + ["pk:p2pkh:c", "pk:p2pkh:u", "pk:p2wpkh:c", "pk:h160:c", "pk:h160:u"]),
        # how the caller spells its flags and type names: real bools / literals, or equal values of another kind
        # (0 / 1, strings assembled at run time)
        "flagform": st.sampled_from(["bool", "bool", "int"]),
    })


def check_addr(case, ctx):
    BaseWallet, Prv, Pub, PublicKey = _impl()
    k, testnet = case["k"], case["testnet"]
    pt = secp.mul_g(k)
    exp = expected(pt, testnet)
    # the node's own network flag / the version prefix it was parsed from may differ from the wallet's network: addresses are
    # the WALLET's business ("for every public key and either network")
    nflag = testnet if case.get("nodeflag", "same") == "same" else (not testnet)
    if case["form"] == "prv":
        node = Prv(key=k.to_bytes(32, "big"), chain_code=b"\x00" * 32, testnet=nflag)
    elif case["form"] == "pub-uncompressed":
        node = Pub(key=secp.ser_u(pt), chain_code=b"\x00" * 32, testnet=nflag)   # still the same public key
    elif case["form"] in ("pub-parsed-other-network", "prv-parsed-other-network"):
        from vlib.ref import bip32 as RB
        rn = RB.Node.from_priv(k, b"\x00" * 32)
        private = case["form"].startswith("prv")
        ver = RB.VERSION_OF[("prv" if private else "pub", not testnet, [44, 49, 84][k % 3])]
        node = (Prv if private else Pub).parse(rn.xprv(ver) if private else rn.xpub(ver))       # flag left at its default
    else:
        node = Pub(key=secp.ser_c(pt), chain_code=b"\x00" * 32, testnet=nflag)
    intflags = case.get("flagform") == "int"
    fl = (lambda b: int(b)) if intflags else (lambda b: b)
    rt = (lambda s_: "".join(list(s_))) if intflags else (lambda s_: s_)     # an equal string that is not the literal object
    st_, w = call(BaseWallet, master=node, testnet=fl(testnet))
    if st_ == "exc":
        ctx.count("non-bool-flag-refused (not judged)")
        intflags, fl, rt = False, (lambda b: b), (lambda s_: s_)
        w = BaseWallet(master=node, testnet=testnet)
    pk = node.public_key           # one key object serves all PublicKey requests of this case
    for req in case["order"]:
        if req in KINDS:
            what = "BaseWallet(testnet=%s).%s_address(%s node, k=%#x)" % (testnet, req, case["form"], k)
            st_, a = call(getattr(w, req + "_address"), node)
            if st_ == "exc":
                raise Violation("C05/address/raised", "%s raised %r" % (what, a))
            judge("C05/address[%s]" % req, what, a, exp[req])
            continue
        _, typ, comp = req.split(":")
        compressed = comp == "c"
        if typ == "h160":
            st_, h = call(pk.h160, compressed=fl(compressed))
            want = hashes.hash160(secp.ser_c(pt) if compressed else secp.ser_u(pt))
            if st_ == "exc" or h != want:
                raise Violation("C05/publickey/h160", "PublicKey.h160(compressed=%s) = %r, expected %s (request order %s)"
                                % (compressed, h, want.hex(), list(case["order"])))
            continue
        what = "PublicKey.address(compressed=%r, testnet=%r, addr_type=%s) k=%#x" % (fl(compressed), fl(testnet), typ, k)
        st_, a = call(pk.address, compressed=fl(compressed), testnet=fl(testnet), addr_type=rt(typ))
        if st_ == "exc" and intflags:
            ctx.count("non-bool-flag-refused (not judged)")
            continue
        if st_ == "exc":
            raise Violation("C05/publickey/raised", "%s raised %r" % (what, a))
        key = typ if compressed else "p2pkh_uncompressed"
        judge("C05/publickey[%s%s]" % (typ, "" if compressed else "-uncompressed"), what, a, exp[key])
    # a key object parsed from the UNCOMPRESSED encoding: the documented defaults (compressed=True) still apply
    st_, pku = call(PublicKey.parse, secp.ser_u(pt))
    if st_ == "ok":
        for what, f, want in (("sec()", pku.sec, secp.ser_c(pt)), ("h160()", pku.h160, hashes.hash160(secp.ser_c(pt)))):
            st_, v = call(f)
            if st_ == "exc" or v != want:
                raise Violation("C05/publickey/parsed-uncompressed-defaults", "PublicKey.parse(uncompressed).%s = %r, expected %s"
                                % (what, v, want.hex()))
        st_, a = call(pku.address, testnet=testnet)
        if st_ == "exc":
            raise Violation("C05/publickey/raised", "parse(uncompressed).address() raised %r" % (a,))
        judge("C05/publickey[p2wpkh-from-uncompressed-encoding]", "PublicKey.parse(uncompressed).address()", a, exp["p2wpkh"])
        st_, a = call(pku.address, testnet=testnet, addr_type="p2pkh")
        judge("C05/publickey[p2pkh-from-uncompressed-encoding]", "PublicKey.parse(uncompressed).address(p2pkh)", a, exp["p2pkh"])
    # the hybrid SEC form (06/07 || X || Y) is accepted by the parser: the key it names is the same point, so every requested
    # form is the standard one (if the parser refuses the form, nothing is judged)
    ser_u = secp.ser_u(pt)
    st_, pkh = call(PublicKey.parse, bytes([6 + (ser_u[-1] & 1)]) + ser_u[1:])
    if st_ == "ok":
        for what, f, want in (("sec(compressed=False)", lambda: pkh.sec(compressed=False), ser_u), ("sec()", pkh.sec, secp.ser_c(pt)),
                              ("h160(compressed=False)", lambda: pkh.h160(compressed=False), hashes.hash160(ser_u))):
            st_, v = call(f)
            if st_ == "exc" or v != want:
                raise Violation("C05/publickey/parsed-hybrid", "PublicKey.parse(<hybrid encoding>).%s = %r, expected %s" % (what, v, want.hex()))
        st_, a = call(pkh.address, compressed=False, testnet=testnet, addr_type="p2pkh")
        judge("C05/publickey[p2pkh-uncompressed-from-hybrid-encoding]", "PublicKey.parse(<hybrid>).address(compressed=False, p2pkh)", a,
              exp["p2pkh_uncompressed"])
        ctx.count("hybrid-encoding-parsed")
    else:
        ctx.count("hybrid-encoding-refused (not judged)")
    # the helper-level encoders, flag positional / keyword, in the caller's spelling
    from btc_hd_wallet import helper as Hh
    h160c = hashes.hash160(secp.ser_c(pt))
    for name, arg, key in (("h160_to_p2pkh_address", h160c, "p2pkh"), ("h160_to_p2sh_address", exp["p2sh_p2wpkh"][3], "p2sh_p2wpkh"),
                           ("h160_to_p2wpkh_address", h160c, "p2wpkh"), ("h256_to_p2wsh_address", exp["p2wsh"][3], "p2wsh")):
        f = getattr(Hh, name, None)
        if f is None:
            continue
        st_, a = call(f, arg, fl(testnet)) if k & 1 else call(f, arg, testnet=fl(testnet))
        if st_ == "exc":
            if intflags:
                ctx.count("non-bool-flag-refused (not judged)")
                continue
            raise Violation("C05/helper/raised", "%s raised %r" % (name, a))
        judge("C05/helper[%s]" % name, "%s(<hash>, testnet=%r)" % (name, fl(testnet)), a, exp[key])
    # unsupported type must not produce an address of some other kind
    st_, a = call(pk.address, addr_type="p2sh")
    if st_ == "ok" and isinstance(a, str):
        ctx.count("unsupported-addr-type-returned-string")


def lz_bytes(k):
    x = secp.mul_g(k)[0]
    return 32 - (x.bit_length() + 7) // 8


def nt_addr(case):
    return case["testnet"] or case["k"] in LZ_KEYS or case["k"] in HZ_KEYS or S.scalar_class(case["k"]) != "uniform"


def key_addr(case):
    return [case["k"], case["testnet"], case["form"]]


def classes_addr(case):
    pt = secp.mul_g(case["k"])
    return ["%s|%s|%s|%s" % ("test" if case["testnet"] else "main", case["form"],
                             "x-leading-zero" if pt[0] < (1 << 248) else "x-full", "odd" if pt[1] & 1 else "even"),
            "hash160-leading-zero" if case["k"] in HZ_KEYS else "hash160-other"]


# ------------------------------------------------------------------------------------ script templates
def check_scripts(case, ctx):
    from btc_hd_wallet import script as Sc
    h160, h256 = case["h160"], case["h256"]
    # two scripts from each builder are alive at once; the first is serialised after the second was built
    o160, o256 = bytes(b ^ 0xFF for b in h160), bytes(b ^ 0xFF for b in h256)
    for name, f, a1, a2, w1 in (("p2pkh_script", Sc.p2pkh_script, h160, o160, b"\x76\xa9\x14" + h160 + b"\x88\xac"),
                                ("p2sh_script", Sc.p2sh_script, h160, o160, b"\xa9\x14" + h160 + b"\x87"),
                                ("p2wpkh_script", Sc.p2wpkh_script, h160, o160, b"\x00\x14" + h160),
                                ("p2wsh_script", Sc.p2wsh_script, h256, o256, b"\x00\x20" + h256)):
        s1 = f(a1)
        s2 = f(a2)
        st_, raw = call(s1.raw_serialize)
        if st_ == "exc" or raw != w1:
            raise Violation("C05/script/template-aliased[%s]" % name, "%s(h1) serialised after %s(h2) was built gives %r, "
                            "expected %s" % (name, name, raw, w1.hex()))
        if s1 == s2:
            raise Violation("C05/script/template-aliased[%s]" % name, "scripts for different hashes compare equal")
        # the template object used as an operand of `+` (in both positions) is still the template afterwards
        w2 = w1.replace(a1, a2)
        st_, s3 = call(lambda: s1 + s2)
        st_b, s4 = call(lambda: s2 + s1)
        for lab, sx, wx in (("left", s1, w1), ("right", s2, w2)):
            st_, raw = call(sx.raw_serialize)
            if st_ == "exc" or raw != wx:
                raise Violation("C05/script/template-changed-by-add[%s]" % name, "%s(h) used as %s operand of + and then serialised gives "
                                "%r, expected %s" % (name, lab, raw, wx.hex()))
    for name, f, arg, want in (
            ("p2pkh_script", Sc.p2pkh_script, h160, b"\x76\xa9\x14" + h160 + b"\x88\xac"),
            ("p2sh_script", Sc.p2sh_script, h160, b"\xa9\x14" + h160 + b"\x87"),
            ("p2wpkh_script", Sc.p2wpkh_script, h160, b"\x00\x14" + h160),
            ("p2wsh_script", Sc.p2wsh_script, h256, b"\x00\x20" + h256)):
        st_, raw = call(lambda: f(arg).raw_serialize())
        if st_ == "exc" or raw != want:
            raise Violation("C05/script/template[%s]" % name, "%s(%s).raw_serialize() = %r, expected %s"
                            % (name, arg.hex(), raw, want.hex()))
        st_, ser = call(lambda: f(arg).serialize())
        if st_ == "exc" or ser != bytes([len(want)]) + want:
            raise Violation("C05/script/template[%s]" % name, "%s.serialize() = %r" % (name, ser))


# ------------------------------------------------------------------------------------ hash160 for every length
def enum_hash(tier):
    top = 1024 if tier == "quick" else 4096
    for n in range(0, top + 1):
        yield {"n": n, "a": n & 0xFF, "b": 1 + (n % 7)}
    for n in (55, 56, 63, 64, 65, 119, 120, 127, 128):
        for fill in (0x00, 0x80, 0xFF):
            yield {"n": n, "a": fill, "b": 0}


def check_hash(case, ctx):
    from btc_hd_wallet import helper, ripemd
    n = case["n"]
    x = bytes(((case["a"] + i * case["b"]) & 0xFF) for i in range(n))
    want_r = hashlib.new("ripemd160", x).digest() if hashes.HAVE_OPENSSL_RIPEMD else hashes.ripemd160_pure(x)
    if hasattr(ripemd, "ripemd160"):
        st_, got = call(ripemd.ripemd160, x)
        if st_ == "exc" or got != want_r:
            raise Violation("C05/hash/ripemd160", "ripemd160 of %d bytes = %r, expected %s" % (n, got, want_r.hex()))
    else:
        ctx.count("ripemd.ripemd160-absent")
    want = hashes.hash160(x)
    st_, got = call(helper.hash160, x)
    if st_ == "exc" or got != want:
        raise Violation("C05/hash/hash160", "hash160 of %d bytes = %r, expected %s" % (n, got, want.hex()))
    # a caller that reuses one mutable buffer
    if n >= 1:
        buf = bytearray(b"\xa5" + x)            # contents not hashed before in this process
        first = hashes.hash160(bytes(buf))
        st_, h1 = call(helper.hash160, buf)
        if st_ == "ok":
            buf[0] ^= 0xFF
            buf[-1] ^= 0x01
            st_, h2 = call(helper.hash160, buf)
            if st_ == "exc" or h1 != first or h2 != hashes.hash160(bytes(buf)):
                raise Violation("C05/hash/hash160-reused-buffer", "hash160 of a reused bytearray (%d bytes) after it was "
                                "modified returned the digest of other contents" % n)
        else:
            ctx.count("hash160-refuses-bytearray (not judged)")
    for name, f, w in (("sha256", helper.sha256, hashlib.sha256(x).digest()),
                       ("hash256", helper.hash256, hashlib.sha256(hashlib.sha256(x).digest()).digest())):
        st_, got = call(f, x)
        if st_ == "exc" or got != w:
            raise Violation("C05/hash/" + name, "%s of %d bytes differs" % (name, n))


def check_hash_threads(case, ctx):
    """Several threads hash different messages at once (tiny switch interval); every digest must be right."""
    import sys
    import threading
    from btc_hd_wallet import helper, ripemd
    msgs = [bytes(((case["a"] + t * 31 + i * (t + 1)) & 0xFF) for i in range(case["n"] + 17 * t)) for t in range(case["threads"])]
    want = [(hashlib.new("ripemd160", m).digest() if hashes.HAVE_OPENSSL_RIPEMD else hashes.ripemd160_pure(m), hashes.hash160(m))
            for m in msgs]
    got = [None] * len(msgs)
    errs = []
    barrier = threading.Barrier(len(msgs))

    def work(t):
        try:
            barrier.wait(timeout=30)
            out = None
            for _ in range(case["rounds"]):
                out = ((ripemd.ripemd160(msgs[t]) if hasattr(ripemd, "ripemd160") else want[t][0]), helper.hash160(msgs[t]))
                if out != want[t]:
                    break
            got[t] = out
        except BaseException as e:  # noqa: BLE001
            errs.append(e)
    old = sys.getswitchinterval()
    sys.setswitchinterval(1e-6)
    try:
        ths = [threading.Thread(target=work, args=(t,), daemon=True) for t in range(len(msgs))]
        for th in ths:
            th.start()
        for th in ths:
            th.join(120)
    finally:
        sys.setswitchinterval(old)
    if errs:
        raise Violation("C05/hash/threads-raised", "concurrent hashing raised %r" % (errs[0],))
    for t in range(len(msgs)):
        if got[t] != want[t]:
            raise Violation("C05/hash/concurrent-digest-wrong", "with %d threads hashing at once, thread %d got a wrong "
                            "RIPEMD-160 / HASH160 for its %d-byte message" % (len(msgs), t, len(msgs[t])))


# ------------------------------------------------------------------------------------ one key object, several threads
REQS = ["sec:c", "sec:u", "h160:c", "h160:u", "addr:p2pkh:c", "addr:p2pkh:u", "addr:p2wpkh:c"]


def check_key_threads(case, ctx):
    """2..3 threads use ONE PublicKey object (and one wallet/node) at once, asking for different forms, under the
    deterministic scheduler; every answer must be the one a single thread gets."""
    from vlib import threads as T
    BaseWallet, Prv, Pub, PublicKey = _impl()
    k, testnet = case["k"], case["testnet"]
    pt = secp.mul_g(k)
    exp = expected(pt, testnet)
    node = Prv(key=k.to_bytes(32, "big"), chain_code=b"\x00" * 32, testnet=testnet)
    w = BaseWallet(master=node, testnet=testnet)
    pk = node.public_key

    def do(req):
        if req in KINDS:
            return getattr(w, req + "_address")(node)
        parts = req.split(":")
        comp = parts[-1] == "c"
        if parts[0] == "sec":
            return pk.sec(compressed=comp)
        if parts[0] == "h160":
            return pk.h160(compressed=comp)
        return pk.address(compressed=comp, testnet=testnet, addr_type=parts[1])

    def runner(reqs):
        def run():
            return [call(do, r) for r in reqs]
        return run
    results, errors = T.run_scheduled(case["plan"], [runner(r) for r in case["threads"]],
                                      T.library_files("keys", "helper", "base_wallet", "script", "bech32", "bip32"), ctx)
    for t, reqs in enumerate(case["threads"]):
        if t in errors:
            raise Violation("C05/key-threads/crashed", "thread %d raised %r" % (t, errors[t]))
        for req, (st_, v) in zip(reqs, results[t]):
            what = "with %d threads sharing one key object, %s (k=%#x, thread %d of %r)" % (len(case["threads"]), req, k, t, case["threads"])
            if st_ == "exc":
                raise Violation("C05/key-threads/raised", "%s raised %r" % (what, v))
            if req in KINDS:
                judge("C05/key-threads[%s]" % req, what, v, exp[req])
                continue
            parts = req.split(":")
            comp = parts[-1] == "c"
            enc = secp.ser_c(pt) if comp else secp.ser_u(pt)
            if parts[0] == "sec":
                if v != enc:
                    raise Violation("C05/key-threads/sec", "%s = %r, expected %s" % (what, v, enc.hex()))
            elif parts[0] == "h160":
                if v != hashes.hash160(enc):
                    raise Violation("C05/key-threads/h160", "%s = %r, expected %s" % (what, v, hashes.hash160(enc).hex()))
            else:
                judge("C05/key-threads[%s]" % req, what, v, exp[parts[1] if comp else "p2pkh_uncompressed"])


def _cold_build(it):
    from vlib.cold import enc
    kind, k, msg, testnet = it
    pt = secp.mul_g(k)
    if kind == "hash160":
        return (["helper", "hash160", [{"hex": msg.hex()}]], enc(hashes.hash160(msg)), "hash160(%d bytes)" % len(msg))
    if kind == "ripemd160":
        return (["ripemd", "ripemd160", [{"hex": msg.hex()}]],
                enc(hashlib.new("ripemd160", msg).digest() if hashes.HAVE_OPENSSL_RIPEMD else hashes.ripemd160_pure(msg)), "ripemd160(%d bytes)" % len(msg))
    typ = {"p2pkh": "p2pkh", "p2wpkh": "p2wpkh"}[kind]
    # the address string is compared after independent decoding in the in-process clauses; here equality with the string
    # built from the reference hash by the reference encoders is the oracle
    from vlib.ref import b58, bech
    h = hashes.hash160(secp.ser_c(pt))
    want = b58.encode_check(bytes([0x6F if testnet else 0x00]) + h) if typ == "p2pkh" else bech.segwit_encode("tb" if testnet else "bc", 0, h)
    return (["keys", "PublicKey.parse", [{"hex": secp.ser_c(pt).hex()}], [["address", [True, testnet, typ]]]], want,
            "PublicKey.parse(..).address(True, %s, %r)" % (testnet, typ))


def clauses():
    return [
        Clause("addresses", check_addr,
               "five BaseWallet address methods + PublicKey.address/h160 (compressed and uncompressed P2PKH, compressed "
               "P2WPKH) in a generated order on one PublicKey object; each string decoded independently and compared "
               "with (version byte | hrp+witness version, hash); non-trivial = testnet, leading-zero-x key or "
               "non-uniform scalar; distinct by (key, network, node form)",
               gen=gen_addr, nontrivial=nt_addr, key=key_addr, classes=classes_addr,
               n={"quick": 6000, "thorough": 60000}, shards={"quick": 16, "thorough": 16}),
        Clause("scripts", check_scripts,
               "p2pkh/p2sh/p2wpkh/p2wsh script builders serialise to the standard templates byte for byte",
               gen=lambda tier: st.fixed_dictionaries({"h160": st.binary(min_size=20, max_size=20),
                                                       "h256": st.binary(min_size=32, max_size=32)}),
               nontrivial=lambda c: c["h160"][0] in (0, 0x4C, 0x4D, 0x4E) or c["h256"][0] in (0, 0x4C, 0x4D, 0x4E) or True,
               n={"quick": 1000, "thorough": 50000}, shards={"quick": 4, "thorough": 16}),
        Clause("key-threads", check_key_threads,
               "2..3 threads share one PublicKey object, one node and one wallet and ask for 1..4 of {sec, h160, P2PKH in "
               "compressed and uncompressed form, P2WPKH, the five wallet address kinds} each, under the deterministic "
               "line-granularity scheduler; every answer judged as in `addresses`; non-trivial = >= 2 switches (measured)",
               gen=lambda tier: st.fixed_dictionaries({
                   "k": st.one_of(S.scalars(), st.sampled_from(LZ_KEYS)), "testnet": st.booleans(),
                   "threads": st.lists(st.lists(st.sampled_from(REQS + REQS + KINDS), min_size=1, max_size=4), min_size=2, max_size=3),
                   "plan": __import__("vlib.threads", fromlist=["plans"]).plans(max_run=6)}),
               n={"quick": 400, "thorough": 12000}, shards={"quick": 16, "thorough": 16}),
        Clause("hash-threads", check_hash_threads,
               "2..4 free-running threads (switch interval 1e-6) hash different messages repeatedly; each digest must "
               "equal hashlib's", gen=lambda tier: st.fixed_dictionaries({
                   "threads": st.integers(2, 4), "n": st.integers(0, 300), "a": st.integers(0, 255), "rounds": st.integers(3, 12)}),
               nontrivial=lambda c: c["threads"] >= 3, n={"quick": 60, "thorough": 3000}, shards={"quick": 12, "thorough": 16}),
        Clause("hash160", check_hash,
               "ripemd160, hash160, sha256, hash256 for every input length 0..1024 (quick) / 0..4096 (thorough) plus "
               "padding-boundary lengths with constant fills, against hashlib; non-trivial = length mod 64 in 55..63 or 0",
               enum=enum_hash, exhaustive=True, enum_desc="every byte length 0..1024 (quick) / 0..4096 (thorough)",
               nontrivial=lambda c: c["n"] % 64 in (55, 56, 57, 58, 59, 60, 61, 62, 63, 0),
               shards={"quick": 8, "thorough": 16}),
        __import__("vlib.cold", fromlist=["x"]).cold_clause(
            "C05", st.tuples(st.sampled_from(["hash160", "ripemd160", "p2pkh", "p2wpkh"]), S.scalars(), st.binary(max_size=150), st.booleans()),
            _cold_build, "hash160 / ripemd160 / PublicKey.address"),
    ]
