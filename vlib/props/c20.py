"""C20 — CLI: bad arguments yield no wallet output; good ones equal the API result."""
import json
import os
import re
import shutil
import subprocess
import sys
import tempfile

from hypothesis import strategies as st

from vlib import cli
from vlib import strategies as S
from vlib.engine import Clause, Violation, repo_dir
from vlib.ref import b58
from vlib.ref import bip32 as R
from vlib.ref import bip39 as R39
from vlib.ref import classify as C
from vlib.util import call

PROPERTY_ID = "C20"
OPTIMIZED = ['intents']   # clauses run a second time under `python -O` (assert statements stripped); broken-pipe starts its own interpreters
RULE = ("structured intents: sub-command (five) + source value + optional passphrase/--testnet/--paranoia/--account/"
        "--interval/--file (path in a generated state), rendered to argv with permuted option order, --opt=value and "
        "unambiguous-prefix spellings; each intent is clean or carries one fault at a validator bound; main() runs in "
        "process in a fresh directory; the oracle is decided by the outcome (status, stdout, files)")
ASSUMPTIONS = ["-h/--help is neither a bad argument vector nor a wallet request and is not generated",
               "running as root: 'parent not writable' is produced with a missing parent and a parent that is a file",
               "clean intents that the command nevertheless rejects (e.g. a passphrase starting with '-') are counted, "
               "not judged: the statement allows stopping with an error"]
H = S.H
SENTINEL = "SENTINEL-CONTENT-DO-NOT-TOUCH\n"
ROW_RE = re.compile(r"^m/(44|49|84)'/([01])'/(\d+)'/0/(\d+)$")


def _impl():
    from btc_hd_wallet.paper_wallet import PaperWallet
    from btc_hd_wallet.base_wallet import BaseWallet
    import btc_hd_wallet.__main__ as M
    return PaperWallet, BaseWallet, M


FAULTS = ["none", "none", "none", "account", "interval", "interval-hardened", "words", "seed-len", "seed-nonhex",
          "entropy-len", "entropy-nonhex", "xkey-len", "xkey-checksum", "xkey-public", "unknown-command",
          "missing-positional", "mnemonic-len", "no-command", "unknown-option"]
FILE_STATES = ["none", "none", "absent", "absent", "existing", "directory", "missing-parent", "parent-is-file",
               "symlink-existing", "symlink-dangling", "twice", "tilde-existing", "existing-dotslash",
               "fifo", "devnull", "symlink-devnull", "existing-empty", "symlink-dir-dotdot", "existing-trailing-slash",
               "existing-slash-dot"]


def gen_intent(tier):
    ent = st.sampled_from([16, 20, 24, 28, 32]).flatmap(lambda n: st.binary(min_size=n, max_size=n))
    return st.fixed_dictionaries({
        "cmd": st.sampled_from(["new", "from-mnemonic", "from-bip39-seed", "from-entropy-hex", "from-master-xprv"]),
        "entropy": ent, "seed": st.binary(min_size=64, max_size=64),
        "pw": st.one_of(st.none(), st.just(""), st.text(alphabet="abcXYZ019 _'\"é", min_size=1, max_size=8)),
        "words": st.sampled_from([12, 15, 18, 21, 24]),
        "testnet": st.booleans(), "paranoia": st.booleans(),
        "account": st.one_of(st.none(), st.sampled_from([0, 1, H - 2]), st.integers(0, H - 2)),
        "interval": st.one_of(st.none(), st.builds(lambda s, n: [s, s + n], st.one_of(st.sampled_from([0, 1, H - 4]), st.integers(0, H - 4)),
                                                   st.integers(0, 3)),
                              st.builds(lambda s, d: [s + d, s], st.integers(0, 1000), st.integers(1, 5))),
        "file": st.sampled_from(FILE_STATES),
        "fault": st.sampled_from(FAULTS), "fv": st.integers(0, 1000),
        "spell": st.lists(st.integers(0, 2), min_size=6, max_size=6), "order": st.permutations([0, 1, 2, 3, 4]),
        "subprocess": st.integers(0, 99),
    })


def opt(name, values, mode, abbrev):
    n = abbrev if mode == 2 and abbrev else name
    if mode == 1 and len(values) == 1:
        return [n + "=" + values[0]]
    return [n] + list(values)


def build_argv(it, tmp):
    """-> (argv, info) where info holds file paths and what the intent means."""
    cmd, fault, fv = it["cmd"], it["fault"], it["fv"]
    sp = it["spell"]
    glob = []
    info = {"files": [], "target": None, "sentinels": []}
    account = it["account"]
    interval = it["interval"]
    if fault == "account":
        account = [-1, H - 1, H, 2 ** 32, -H, H + 5][fv % 6]
    if fault == "interval":
        bad = [-1, 2 ** 32 - 1, 2 ** 32, -5, 2 ** 33][fv % 5]
        interval = [bad, 5] if fv % 2 else [0, bad]
    if fault == "interval-hardened":
        s0 = [H, H - 1, H + 7, 2 ** 32 - 4][fv % 4]
        interval = [s0, s0 + 2]
    if it["testnet"]:
        glob.append(opt("--testnet", [], sp[0], "--test"))
    if it["paranoia"]:
        glob.append(opt("--paranoia", [], sp[1], "--para"))
    if account is not None:
        glob.append(opt("--account", [str(account)], sp[2], "--acc"))
    if interval is not None:
        glob.append(opt("--interval", [str(interval[0]), str(interval[1])], 0 if sp[3] == 1 else sp[3], "--int"))
    fstate = it["file"]
    if fstate != "none":
        def mk(name):
            return os.path.join(tmp, name)
        if fstate == "absent":
            path = "out.json" if fv % 2 else mk("out.json")
            info["target"] = mk("out.json")
            for sib in ("out.json.tmp", "out.json~", "out.json.bak", ".out.json.swp", "out.json.part", "out"):
                with open(mk(sib), "w") as f:
                    f.write(SENTINEL)
                info["sentinels"].append(mk(sib))
        elif fstate in ("existing", "existing-dotslash"):
            with open(mk("have.json"), "w") as f:
                f.write(SENTINEL)
            info["sentinels"].append(mk("have.json"))
            path = mk("have.json") if fstate == "existing" else "./have.json"
        elif fstate in ("existing-trailing-slash", "existing-slash-dot"):
            # an existing regular file spelled with a trailing separator (`wallet.json/`, `wallet.json/.`)
            with open(mk("have.json"), "w") as f:
                f.write(SENTINEL)
            info["sentinels"].append(mk("have.json"))
            info["existing_special"] = mk("have.json")
            path = (mk("have.json") if fv % 2 else "have.json") + ("/" if fstate == "existing-trailing-slash" else "/.")
        elif fstate == "directory":
            os.mkdir(mk("adir"))
            path = mk("adir")
        elif fstate == "missing-parent":
            path = mk("nodir/out.json")
        elif fstate == "parent-is-file":
            with open(mk("afile"), "w") as f:
                f.write(SENTINEL)
            info["sentinels"].append(mk("afile"))
            path = mk("afile/out.json")
        elif fstate == "symlink-existing":
            with open(mk("real.json"), "w") as f:
                f.write(SENTINEL)
            info["sentinels"].append(mk("real.json"))
            os.symlink(mk("real.json"), mk("link.json"))
            path = mk("link.json")
        elif fstate == "symlink-dangling":
            os.symlink(mk("gone.json"), mk("link.json"))
            path = mk("link.json")
            info["target"] = mk("link.json")
        elif fstate == "twice":
            glob.append(opt("--file", [mk("first.json")], sp[4], "--fi"))
            info["never"] = mk("first.json")
            path = mk("second.json")
            info["target"] = mk("second.json")
        elif fstate == "fifo":
            # an existing path that is not a regular file; a reader is attached by run_intent so that a write cannot block
            os.mkfifo(mk("pipe.json"))
            path = mk("pipe.json")
            info["fifo"] = path
            info["existing_special"] = path
        elif fstate == "devnull":
            path = "/dev/null"
            info["existing_special"] = path
        elif fstate == "symlink-devnull":
            os.symlink("/dev/null", mk("sink.json"))
            path = mk("sink.json")
            info["existing_special"] = path
        elif fstate == "existing-empty":
            with open(mk("empty.json"), "w"):
                pass
            info["sentinels"].append(mk("empty.json"))
            info["existing_special"] = mk("empty.json")
            path = mk("empty.json")
        elif fstate == "symlink-dir-dotdot":
            # `link/../wallet.json` where link -> elsewhere/sub: the OS resolves it to elsewhere/wallet.json (absent), while
            # a purely textual normalisation would point at ./wallet.json, which exists
            os.makedirs(mk("elsewhere/sub"))
            os.symlink(mk("elsewhere/sub"), mk("link"))
            with open(mk("wallet.json"), "w") as f:
                f.write(SENTINEL)
            info["sentinels"].append(mk("wallet.json"))
            path = "link/../wallet.json" if fv % 2 else mk("link/../wallet.json")
            info["target"] = mk("elsewhere/wallet.json")
        elif fstate == "tilde-existing":
            with open(mk("wallet.json"), "w") as f:
                f.write(SENTINEL)
            info["sentinels"].append(mk("wallet.json"))
            path = "~/wallet.json"
            info["home"] = tmp
        glob.append(opt("-f" if fv % 3 == 0 else "--file", [path], sp[4] if fv % 3 else 0, "--fi"))
    order = list(it["order"])
    glob = [glob[i] for i in order if i < len(glob)] + [g for i, g in enumerate(glob) if i not in order]
    argv = [a for g in glob for a in g]
    if fstate == "twice":
        # argparse keeps the last occurrence: that one is the requested file, the other must never appear
        paths = []
        for i, a in enumerate(argv):
            name, _, val = a.partition("=")
            if name in ("-f", "--file", "--fi"):
                paths.append(val if val else argv[i + 1])
        info["target"], info["never"] = paths[-1], paths[0]
    if fault == "unknown-option":
        argv.append(["--seed", "--verbose", "-x", "--accounts=1"][fv % 4])
    # sub-command part
    sub = []
    pw = it["pw"]
    mnemonic = R39.encode(it["entropy"])
    rm_seed = it["seed"]
    if fault == "no-command":
        return argv, info
    if fault == "unknown-command":
        return argv + [["from-seed", "create", "From-Mnemonic", "new-wallet"][fv % 4], "x"], info
    if cmd == "new":
        sub = ["new"]
        if pw is not None:
            sub += opt("--password", [pw], sp[5] if not pw.startswith("-") else 1, "--pass")
        words = it["words"]
        if fault == "mnemonic-len":
            words = [11, 13, 25, 0, -12, 16][fv % 6]
            sub += ["--mnemonic-len", str(words)]
        elif fv % 2:
            sub += opt("--mnemonic-len", [str(words)], sp[5], "--mnemonic-l")
        else:
            words = 24
        info["words"] = words
    elif cmd == "from-mnemonic":
        m = mnemonic
        if fault == "words":
            ws = mnemonic.split(" ")
            # word counts on both sides of every valid length, multiples of three outside 12..24, pasted-together sentences
            bad_counts = [11, 13, 14, 16, 17, 19, 20, 22, 23, 25, 26, 27, 30, 33, 36, 48, 9, 6, 3, 1, 2 * len(ws), 3 * len(ws)]
            cnt = bad_counts[fv % len(bad_counts)]
            if cnt in (12, 15, 18, 21, 24):
                cnt += 1
            m = " ".join((ws * 6)[:cnt])
        elif fv % 5 == 0:
            # the sentence as typed with capitals (caps lock, a capitalised first word): the seed is made from the text as given
            ws = mnemonic.split(" ")
            m = " ".join([ws[0].capitalize()] + ws[1:]) if fv % 10 else mnemonic.upper()
        sub = ["from-mnemonic"]
        pos = [m] if fault != "missing-positional" else []
        pwopt = opt("--password", [pw], sp[5] if pw and not pw.startswith("-") else 1, "--pass") if pw is not None else []
        sub += (pos + pwopt) if fv % 2 else (pwopt + pos)
        info["mnemonic"] = m
    elif cmd == "from-bip39-seed":
        hx = rm_seed.hex()
        if fault == "seed-len":
            hx = [hx[:126], hx + "ab", hx[:64], hx[:127], ""][fv % 5]
        elif fault == "seed-nonhex":
            hx = hx[:10] + "zz" + hx[12:]
        elif fv % 3 == 0:
            hx = hx.upper()
        sub = ["from-bip39-seed"] + ([hx] if fault != "missing-positional" else [])
        info["seed_hex"] = hx
    elif cmd == "from-entropy-hex":
        hx = it["entropy"].hex()
        if fault == "entropy-len":
            hx = [hx[:-2], hx + "ab", hx[:-1], hx[:8], hx + hx][fv % 5]
        elif fault == "entropy-nonhex":
            hx = hx[:4] + "xy" + hx[6:]
        sub = ["from-entropy-hex"]
        pos = [hx] if fault != "missing-positional" else []
        pwopt = opt("--password", [pw], 1, None) if pw is not None else []
        sub += pos + pwopt
        info["entropy_hex"] = hx
    else:
        rm = R.master(rm_seed)
        x = rm.xprv(R.TPRV if it["testnet"] and fv % 2 else R.XPRV)
        if fault == "xkey-len":
            x = [x[:-1], x + "1", x[:50]][fv % 3]
        elif fault == "xkey-checksum":
            x = x[:-1] + ("2" if x[-1] != "2" else "3")
        elif fault == "xkey-public":
            x = rm.xpub(R.XPUB)
        sub = ["from-master-xprv"] + ([x] if fault != "missing-positional" else [])
        info["xkey"] = x
    return argv + sub, info


def expected_api(it, info, account, interval, recorded):
    PW, BW, M = _impl()
    cmd = it["cmd"]
    pw = it["pw"] or ""
    if cmd == "new":
        w = PW.from_mnemonic(recorded["mnemonic"], recorded["password"], it["testnet"])
    elif cmd == "from-mnemonic":
        w = PW.from_mnemonic(info["mnemonic"].strip(), pw, it["testnet"])
    elif cmd == "from-bip39-seed":
        w = PW.from_bip39_seed_hex(info["seed_hex"], it["testnet"])
    elif cmd == "from-entropy-hex":
        w = PW.from_entropy_hex(info["entropy_hex"], pw, it["testnet"])
    else:
        w = PW.from_extended_key(info["xkey"])
    data = w.generate(account=account, interval=interval)
    if it["paranoia"]:
        data = M.paranoia_mode(data)
    return json.loads(json.dumps(data)), w


def has_wallet_data(text):
    try:
        d = json.loads(text)
        if isinstance(d, dict) and (set(d) & {"MASTER", "BIP44", "BIP49", "BIP84", "BIP85"}):
            return "wallet JSON"
    except ValueError:
        pass
    for tok in re.split(r"[\s\",\[\]{}]+", text):
        tok = tok.strip(":")
        if len(tok) >= 26:
            c = C.classify(tok)
            if c["kind"] in ("p2pkh", "p2sh", "segwit", "wif", "xprv", "xpub"):
                return "%s %s" % (c["kind"], tok)
    for line in text.splitlines():
        m = re.search(r"((?:[a-z]{3,8} ){11,23}[a-z]{3,8})", line)
        if m and C.classify(m.group(1))["kind"] == "bip39":
            return "mnemonic sentence"
    return None


def snapshot(tmp):
    out = {}
    for root, dirs, files in os.walk(tmp):
        for n in files + dirs:
            p = os.path.join(root, n)
            if os.path.islink(p):
                out[p] = ("link", os.readlink(p))
            elif os.path.isdir(p):
                out[p] = ("dir", None)
            elif not os.path.isfile(p):
                out[p] = ("special", None)
            else:
                with open(p, "rb") as f:
                    out[p] = ("file", f.read())
    return out


def run_intent(it, ctx, use_subprocess=False):
    PW, BW, M = _impl()
    tmp = tempfile.mkdtemp(prefix="c20-")
    old_home = os.environ.get("HOME")
    recorded = {}
    fifo_fd = None
    try:
        argv, info = build_argv(it, tmp)
        if "home" in info:
            os.environ["HOME"] = info["home"]
        before = snapshot(tmp)
        fifo_fd = os.open(info["fifo"], os.O_RDONLY | os.O_NONBLOCK) if info.get("fifo") else None
        if use_subprocess:
            env = dict(os.environ, PYTHONPATH=repo_dir(), PYTHONDONTWRITEBYTECODE="1")
            p = subprocess.run([sys.executable, "-m", "btc_hd_wallet"] + argv, cwd=tmp, env=env, capture_output=True, text=True, timeout=600)
            r = {"status": p.returncode, "out": p.stdout, "err": p.stderr, "exc": None}
        else:
            orig = BW.__dict__["new_wallet"]

            def rec_new(cls, *a, **kw):
                w = orig.__func__(cls, *a, **kw)
                recorded.update(mnemonic=w.mnemonic, password=w.password, args=(a, kw))
                return w
            PW.new_wallet = classmethod(rec_new)
            try:
                r = cli.run_main(argv, cwd=tmp)
            finally:
                del PW.new_wallet
        after = snapshot(tmp)
        if fifo_fd is not None:
            try:
                info["fifo_bytes"] = os.read(fifo_fd, 1 << 20)
            except BlockingIOError:
                info["fifo_bytes"] = b""
        return argv, info, r, before, after, recorded
    finally:
        if fifo_fd is not None:
            os.close(fifo_fd)
        if old_home is None:
            os.environ.pop("HOME", None)
        else:
            os.environ["HOME"] = old_home
        shutil.rmtree(tmp, ignore_errors=True)


def judge(it, argv, info, r, before, after, recorded, ctx, mode):
    what = "argv %r (%s)" % (argv, mode)
    changed = {p for p in before if before[p] != after.get(p)}
    created = {p for p in after if p not in before}
    for p in info["sentinels"]:
        if before.get(p) != after.get(p):
            raise Violation("C20/files/existing-file-changed", "%s: pre-existing file %s was modified (status %d)"
                            % (what, os.path.basename(p), r["status"]))
    if changed:
        raise Violation("C20/files/existing-file-changed", "%s: changed %r" % (what, sorted(os.path.basename(p) for p in changed)))
    if info.get("fifo_bytes"):
        raise Violation("C20/files/existing-path-written", "%s: %d bytes were written into the existing named pipe given as "
                        "--file (status %d): %r" % (what, len(info["fifo_bytes"]), r["status"], info["fifo_bytes"][:60]))
    if info.get("existing_special") and r["status"] == 0 and not has_wallet_data(r["out"]):
        raise Violation("C20/files/existing-path-accepted", "%s: --file named an existing path (%s) and the command exited 0 "
                        "with no wallet on stdout: the output went into a path that existed" % (what, it["file"]))
    if info.get("never") in created:
        raise Violation("C20/files/unrequested-file-created", "%s created %s" % (what, os.path.basename(info["never"])))
    if r["status"] != 0:
        ctx.count("rejected")
        if it["fault"] == "none" and it["file"] in ("none", "absent", "twice", "symlink-dangling", "symlink-dir-dotdot") and not (it["pw"] or "").startswith("-"):
            ctx.count("clean-intent-rejected")
        leak = has_wallet_data(r["out"])
        if leak:
            raise Violation("C20/rejected/wallet-data-on-stdout", "%s exited with status %d but stdout carries %s"
                            % (what, r["status"], leak))
        if created:
            raise Violation("C20/rejected/file-created", "%s exited with status %d but created %r"
                            % (what, r["status"], sorted(os.path.basename(p) for p in created)))
        return
    ctx.count("accepted")
    # arguments that are bad by the definition of the format itself (BIP39 word counts and entropy sizes, the 64-byte BIP39
    # seed, the 111-character extended key): the title clause - bad arguments yield no wallet output
    bad = None
    if it["cmd"] == "from-mnemonic" and "mnemonic" in info and len(info["mnemonic"].split(" ")) not in (12, 15, 18, 21, 24):
        bad = ("words", "mnemonic word count (%d)" % len(info["mnemonic"].split(" ")))
    elif it["cmd"] == "new" and info.get("words", 24) not in (12, 15, 18, 21, 24):
        bad = ("mnemonic-len", "requested word count (%r)" % info.get("words"))
    elif it["cmd"] == "from-bip39-seed" and "seed_hex" in info and len(info["seed_hex"]) != 128:
        bad = ("seed-len", "BIP39 seed length (%d hex digits)" % len(info["seed_hex"]))
    elif it["cmd"] == "from-entropy-hex" and "entropy_hex" in info and len(info["entropy_hex"]) * 4 not in (128, 160, 192, 224, 256):
        bad = ("entropy-len", "entropy size (%d hex digits)" % len(info["entropy_hex"]))
    elif it["cmd"] == "from-master-xprv" and "xkey" in info and len(info["xkey"]) != 111:
        bad = ("xkey-len", "extended key length (%d characters)" % len(info["xkey"]))
    if bad is not None and it["fault"] not in ("no-command", "unknown-command", "missing-positional"):
        raise Violation("C20/accepted/bad-argument[%s]" % bad[0], "%s exited 0 and produced a wallet although the %s is outside what "
                        "the format defines" % (what, bad[1]))
    # accepted: the JSON is on stdout, or in the requested new file with stdout empty
    target = info.get("target")
    file_new = [p for p in created if after[p][0] == "file"]
    if it["file"] != "none" and target is not None and (target in created or os.path.realpath(target) in created or file_new):
        leak = has_wallet_data(r["out"])
        if leak:
            raise Violation("C20/accepted/stdout-and-file", "%s wrote a file and also printed wallet data (%s)" % (what, leak))
        if r["out"].strip():
            ctx.count("message-on-stdout-while-saving-to-file")
        real = [p for p in file_new]
        if len(real) != 1:
            raise Violation("C20/accepted/files", "%s created files %r" % (what, sorted(map(os.path.basename, created))))
        text = after[real[0]][1].decode()
        where = "file " + os.path.basename(real[0])
    else:
        if created:
            raise Violation("C20/accepted/unexpected-file", "%s created %r" % (what, sorted(map(os.path.basename, created))))
        text = r["out"]
        where = "stdout"
    try:
        got = json.loads(text)
    except ValueError:
        raise Violation("C20/accepted/not-json", "%s: status 0 but %s is not JSON: %r" % (what, where, text[:120]))
    # which account/interval did the parser accept?  (recover from argv as the user typed them)
    account = 0
    interval = [0, 20]
    toks = list(argv)
    for i, t in enumerate(toks):
        name, _, val = t.partition("=")
        if name and "--account".startswith(name) and len(name) >= 3 and name.startswith("--a"):
            account = int(val) if val else int(toks[i + 1])
        if name and "--interval".startswith(name) and len(name) >= 3 and name.startswith("--i") and not val:
            interval = [int(toks[i + 1]), int(toks[i + 2])]
    if it["cmd"] == "new" and mode == "subprocess":
        ctx.count("new-in-subprocess-shape-only")
        want = None
    else:
        if it["cmd"] == "new":
            if not recorded:
                raise Violation("C20/new/not-via-new_wallet", "%s: 'new' did not call PaperWallet.new_wallet" % what)
            n_words = len(recorded["mnemonic"].split(" "))
            if n_words != info.get("words", 24) or recorded["password"] != (it["pw"] or ""):
                raise Violation("C20/new/arguments", "%s: new wallet has %d words / passphrase %r" % (what, n_words, recorded["password"]))
        st_, res = call(expected_api, it, info, account, interval, recorded)
        if st_ == "exc":
            raise Violation("C20/accepted/api-refuses", "%s exited 0 but the API call for the same input raised %r" % (what, res))
        want, w = res
        if got != want:
            diff = [k for k in set(got) | set(want) if got.get(k) != want.get(k)] if isinstance(got, dict) else ["<shape>"]
            raise Violation("C20/accepted/differs-from-api[%s]" % ",".join(sorted(diff))[:60],
                            "%s: %s JSON differs from PaperWallet API result in %r: %r vs %r"
                            % (what, where, diff, str(got.get(diff[0]) if isinstance(got, dict) else got)[:200],
                               str(want.get(diff[0]))[:200]))
    # BIP44-shaped rows
    nrows = 0
    for sec in ("BIP44", "BIP49", "BIP84"):
        blk = got.get(sec)
        if blk is None:
            raise Violation("C20/accepted/sections", "%s: %s missing from output" % (what, sec))
        pth = blk["account_extended_keys"]["path"]
        if not re.match(r"^m/%s'/[01]'/\d+'$" % sec[3:], pth) or int(pth.split("/")[3][:-1]) != account:
            raise Violation("C20/rows/account-path", "%s: %s account path %r" % (what, sec, pth))
        for row in blk["groups"]:
            nrows += 1
            m = ROW_RE.match(row[0])
            if not m:
                kind = "not-bip44-shaped"
                if re.match(r"^m/\d+'/[01]'/\d+'/0/\d+'$", row[0]):
                    # the listed finding: an accepted interval that itself reaches into [2^31, 2^32)
                    kind = "hardened-address-index[interval>=2^31]" if max(interval) > H else "hardened-address-index[interval<2^31]"
                raise Violation("C20/rows/%s" % kind, "%s: row path %r is not m/P'/c'/a'/0/i with a non-hardened address "
                                "index (accepted interval %r)" % (what, row[0], interval))
            if int(m.group(3)) != account or not (interval[0] <= int(m.group(4)) < interval[1]):
                raise Violation("C20/rows/outside-request", "%s: row path %r for account %d interval %r" % (what, row[0], account, interval))
        if len(blk["groups"]) != max(0, interval[1] - interval[0]):
            raise Violation("C20/rows/count", "%s: %s has %d rows for interval %r" % (what, sec, len(blk["groups"]), interval))
    if it["paranoia"] and (set(got) & {"MASTER", "BIP85"}):
        raise Violation("C20/accepted/paranoia-sections", "%s: paranoia output has keys %r" % (what, sorted(got)))
    return want


def check_intent(case, ctx):
    argv, info, r, before, after, recorded = run_intent(case, ctx)
    judge(case, argv, info, r, before, after, recorded, ctx, "in-process")
    if case["subprocess"] < case.get("sub_pct", 3):
        ctx.count("subprocess-reruns")
        argv2, info2, r2, b2, a2, _ = run_intent(case, ctx, use_subprocess=True)
        judge(case, argv2, info2, r2, b2, a2, {}, ctx, "subprocess")
        if (r2["status"] == 0) != (r["status"] == 0):
            raise Violation("C20/harness/subprocess-disagrees", "status in process %d, as subprocess %d for %r"
                            % (r["status"], r2["status"], argv))
        if case["cmd"] != "new" and r["status"] == 0:
            try:
                same = json.loads(r["out"]) == json.loads(r2["out"])
            except ValueError:
                same = True   # not JSON on stdout (output went to a file): the file contents were judged above
            if not same:
                raise Violation("C20/harness/subprocess-disagrees", "stdout JSON differs between in-process and subprocess run")


def nt_intent(case):
    return case["fault"] != "none" or case["file"] != "none" or case["testnet"] or case["account"] not in (None, 0) \
        or case["interval"] is not None


def classes_intent(case):
    return ["cmd:" + case["cmd"], "fault:" + case["fault"], "file:" + case["file"],
            "paranoia" if case["paranoia"] else "plain"]


FAULT_CMD = {"words": "from-mnemonic", "seed-len": "from-bip39-seed", "seed-nonhex": "from-bip39-seed",
             "entropy-len": "from-entropy-hex", "entropy-nonhex": "from-entropy-hex", "xkey-len": "from-master-xprv",
             "xkey-checksum": "from-master-xprv", "xkey-public": "from-master-xprv", "mnemonic-len": "new"}


def enum_grid(tier):
    """Every fault kind crossed with every file-path state (one intent each), deterministic."""
    cmds = ["from-bip39-seed", "from-mnemonic", "from-entropy-hex", "from-master-xprv", "new"]
    n = 0
    for fault in sorted(set(FAULTS)):
        for fstate in sorted(set(FILE_STATES)):
            n += 1
            yield {"cmd": FAULT_CMD.get(fault, cmds[n % 5]), "entropy": bytes((n + i) & 0xFF for i in range(16)),
                   "seed": bytes((n * 7 + i) & 0xFF for i in range(64)), "pw": [None, "", "pw x", " lead", "trail "][n % 5],
                   "words": 12, "testnet": bool(n & 1), "paranoia": bool(n & 2), "account": [None, 0, 5][n % 3],
                   "interval": [[0, 1], None, [3, 4], [7, 7]][n % 4] if fault == "none" or n % 2 else [0, 1],
                   "file": fstate, "fault": fault, "fv": n, "spell": [n % 3, (n // 3) % 3, 0, 0, n % 2, 0],
                   "order": [0, 1, 2, 3, 4], "subprocess": 0 if fault == "none" else 99}


def enum_grid_and_wide(tier):
    yield from enum_grid(tier)
    # one accepted command line with more rows than any batch size a generator might use internally
    yield {"cmd": "from-bip39-seed", "entropy": bytes(16), "seed": bytes(range(64)), "pw": None, "words": 12, "testnet": False, "paranoia": True,
           "account": 3, "interval": [300, 1340] if tier == "quick" else [7, 2100], "file": "none", "fault": "none", "fv": 0,
           "spell": [0, 0, 0, 0, 0, 0], "order": [0, 1, 2, 3, 4], "subprocess": 99}


def gen_thorough(tier):
    base = gen_intent(tier)
    if tier == "thorough":
        return base.map(lambda d: dict(d, sub_pct=5))
    return base


# ------------------------------------------------------------------------------------ output that cannot be delivered
def enum_pipe(tier):
    n = 0
    for cmd in ("from-bip39-seed", "from-mnemonic", "from-entropy-hex", "from-master-xprv", "new"):
        for rows in ((0, 0), (0, 1), (0, 40)):
            n += 1
            yield {"cmd": cmd, "rows": list(rows), "paranoia": bool(n & 1), "testnet": bool(n & 2), "n": n}


def check_pipe(case, ctx):
    """The real entry point with a standard output whose reader is gone (EPIPE on write, small and large outputs): the
    JSON cannot have been printed, so the command must not report success."""
    n = case["n"]
    ent = bytes((n * 3 + i) & 0xFF for i in range(16))
    seed = bytes((n * 5 + i) & 0xFF for i in range(64))
    try:
        rm = R.master(seed)
    except R.Invalid:
        return
    sub = {"from-bip39-seed": ["from-bip39-seed", seed.hex()], "from-mnemonic": ["from-mnemonic", R39.encode(ent)],
           "from-entropy-hex": ["from-entropy-hex", ent.hex()], "new": ["new", "--mnemonic-len", "12"],
           "from-master-xprv": ["from-master-xprv", rm.xprv(R.TPRV if case["testnet"] else R.XPRV)]}[case["cmd"]]
    argv = (["--paranoia"] if case["paranoia"] else []) + (["--testnet"] if case["testnet"] and case["cmd"] != "from-master-xprv" else []) \
        + ["--interval", str(case["rows"][0]), str(case["rows"][1])] + sub
    env = dict(os.environ, PYTHONPATH=repo_dir(), PYTHONDONTWRITEBYTECODE="1")
    tmp = tempfile.mkdtemp(prefix="c20p-")
    try:
        # control: the same command line with a working stdout succeeds
        p0 = subprocess.run([sys.executable, "-m", "btc_hd_wallet"] + argv, cwd=tmp, env=env, capture_output=True, text=True, timeout=600)
        if p0.returncode != 0:
            ctx.count("control-run-rejected (not judged)")
            ctx.nontrivial = False
            return
        rfd, wfd = os.pipe()
        os.close(rfd)
        try:
            p = subprocess.run([sys.executable, "-m", "btc_hd_wallet"] + argv, cwd=tmp, env=env, stdout=wfd, stderr=subprocess.PIPE,
                               text=True, timeout=600)
        finally:
            os.close(wfd)
        ctx.count("status=%s" % ("0" if p.returncode == 0 else "non-zero"))
        if p.returncode == 0:
            raise Violation("C20/broken-pipe/success-reported", "argv %r with a standard output whose reader is gone (EPIPE): exit "
                            "status 0 although the %d-character JSON cannot have been delivered (stderr %r)"
                            % (argv, len(p0.stdout), p.stderr[-200:]))
        if os.listdir(tmp):
            raise Violation("C20/rejected/file-created", "argv %r with a closed stdout left files %r" % (argv, os.listdir(tmp)))
    finally:
        shutil.rmtree(tmp, ignore_errors=True)


def clauses():
    return [
        Clause("intents", check_intent,
               "outcome oracle: status != 0 -> stdout holds no wallet JSON / address / key / WIF / sentence, no file was "
               "created, pre-existing files unchanged; status 0 -> stdout (or exactly the requested new file, with empty "
               "stdout) is JSON equal to a fresh PaperWallet API call for the same source/network/account/interval "
               "(through paranoia_mode when requested; for 'new' the sentence is learned by wrapping new_wallet from "
               "outside), rows are m/P'/c'/a'/0/i with non-hardened i inside the requested interval; 3% (quick) / 5% "
               "(thorough) re-run as a real `python -m btc_hd_wallet` subprocess; non-trivial = faulted intent or "
               "non-default network/account/interval/file",
               gen=gen_thorough, enum=enum_grid_and_wide, enum_desc="19 fault kinds x 18 file-path states (absent, existing, directory, symlinks, named pipe, /dev/null, ...)",
               nontrivial=nt_intent, classes=classes_intent,
               n={"quick": 420, "thorough": 10000}, shards={"quick": 16, "thorough": 16}),
        Clause("broken-pipe", check_pipe,
               "fault injection on the real entry point (`python -m btc_hd_wallet` subprocess): standard output is a pipe "
               "whose read end is closed, for outputs below and above the stdio buffer size; after a control run with a "
               "working stdout succeeded, the faulted run must exit non-zero and leave no file",
               enum=enum_pipe, exhaustive=True, enum_desc="5 commands x 3 output sizes (0, 1, 40 rows per section)",
               nontrivial=lambda c: True, shards={"quick": 15, "thorough": 15}),
    ]
