"""C10 — Base58Check is lossless and never accepts a string with a wrong checksum."""
from hypothesis import strategies as st

from vlib.engine import Clause, Violation
from vlib.ref import b58
from vlib.util import call, expect_eq, must_return

PROPERTY_ID = "C10"
OPTIMIZED = ['checksum', 'bytes', 'strings']   # clauses run a second time under `python -O` (assert statements stripped)
RULE = ("byte strings are built as z zero bytes + tail (construction); invalid Base58Check strings "
        "are constructed from valid ones by byte-level corruption re-encoded with the reference "
        "encoder and by string-level edits; the reference decoder is the oracle")
ASSUMPTIONS = ["the empty byte string / empty text is outside the round-trip domain (non-empty only)"]
LOOKALIKE = "0OIl"
ALPHA = b58.ALPHABET


def _impl():
    from btc_hd_wallet import helper
    return helper


def _bytes_case():
    # z leading zeros + tail whose first byte is non-zero (or empty tail)
    def power(m, j, z):
        v = m * 58 ** j
        return v.to_bytes((v.bit_length() + 7) // 8, "big") + b"\x00" * z
    def near(base, j, d):
        # just below / at / just above a power of the radix (the digit count changes here)
        v = max(1, base ** j + d)
        return v.to_bytes((v.bit_length() + 7) // 8, "big")
    tail = st.one_of(st.just(b""), st.builds(lambda f, r: bytes([f]) + r, st.integers(1, 255), st.binary(max_size=127)),
                     st.builds(power, st.integers(1, 58 ** 3), st.integers(1, 12), st.integers(0, 3)),
                     st.builds(near, st.just(58), st.integers(1, 170), st.integers(-3, 3)),
                     st.builds(near, st.just(256), st.integers(1, 120), st.integers(-3, 3)))
    long_tail = st.builds(lambda f, r: bytes([f]) + r, st.integers(1, 255), st.binary(min_size=128, max_size=1024))
    return st.one_of(st.fixed_dictionaries({"z": st.one_of(st.integers(0, 8), st.integers(0, 128)), "tail": tail}),
                     st.fixed_dictionaries({"z": st.one_of(st.integers(0, 8), st.integers(0, 128)), "tail": tail}),
                     st.fixed_dictionaries({"z": st.one_of(st.integers(0, 8), st.integers(0, 300)),
                                            "tail": st.one_of(tail, long_tail), "cap": st.just(2048)}))


def _mk(case):
    b = b"\x00" * case["z"] + case["tail"]
    return b[:case.get("cap", 128)]


def check_bytes(case, ctx):
    h = _impl()
    b = _mk(case)
    if not b:
        ctx.count("empty-skipped")
        return
    want = b58.encode(b)
    if case["z"] % 2:
        got = must_return("C10/encode/raised", "encode_base58(data=<%d bytes>)" % len(b), h.encode_base58, data=b)
    else:
        got = must_return("C10/encode/raised", "encode_base58(%d bytes)" % len(b), h.encode_base58, b)
    expect_eq("C10/encode/differs", "encode_base58(%s)" % b[:16].hex(), got, want)
    z = len(b) - len(b.lstrip(b"\x00"))
    ones = len(got) - len(got.lstrip("1"))
    expect_eq("C10/encode/leading-ones", "leading '1' count for %d leading zero bytes" % z, ones, z)
    back = must_return("C10/decode/raised", "decode_base58(encode(b))", h.decode_base58, s=got)
    expect_eq("C10/decode/roundtrip", "decode_base58(encode_base58(%s..))" % b[:16].hex(), back, b)


def nt_bytes(case):
    return case["z"] >= 1 and len(_mk(case)) >= 1


def check_string(case, ctx):
    h = _impl()
    s = case["s"]
    want = b58.decode(s)
    got = must_return("C10/decode/raised", "decode_base58(%r)" % s[:30], h.decode_base58, s)
    expect_eq("C10/decode/differs", "decode_base58(%r)" % s[:30], got, want)
    again = must_return("C10/encode/raised", "encode_base58(decode_base58(s))", h.encode_base58, got)
    expect_eq("C10/encode/not-inverse", "encode_base58(decode_base58(%r))" % s[:30], again, s)


def gen_string(tier):
    body = st.text(alphabet=ALPHA, min_size=0, max_size=60)
    return st.fixed_dictionaries({"s": st.one_of(
        st.text(alphabet=ALPHA, min_size=1, max_size=60),
        st.builds(lambda n, t: "1" * n + t, st.integers(1, 12), body),
        st.integers(1, 40).map(lambda n: "1" * n),
        st.sampled_from(list(ALPHA)),
        # largest-digit runs (values just below a power of 58) and exact powers, alone and with prefix / suffix
        st.builds(lambda o, n, t: "1" * o + "z" * n + t, st.integers(0, 3), st.integers(1, 60), st.text(alphabet=ALPHA, max_size=8)),
        st.builds(lambda o, n: "1" * o + "2" + "1" * n, st.integers(0, 3), st.integers(1, 60)),
        # runs of '1' in the middle / at the end (zero digits inside the number)
        st.builds(lambda a, n, b: a + "1" * n + b, st.text(alphabet=ALPHA[1:], min_size=1, max_size=12), st.integers(1, 16),
                  st.text(alphabet=ALPHA, max_size=12)),
    )})


# ------------------------------------------------------------------------------ checksum clause
def build_checked(case):
    """-> the string handed to the decoder."""
    payload = case["payload"]
    kind, a, b = case["mut"]
    chk = b58.sha256d(payload)[:4]
    raw = bytearray(payload + chk)
    if kind == "none":
        return b58.encode(bytes(raw))
    if kind == "chk":
        raw[len(payload) + a % 4] ^= (b % 255) + 1
        return b58.encode(bytes(raw))
    if kind == "pay":
        if not payload:
            return b58.encode(bytes(raw))
        raw[a % len(payload)] ^= (b % 255) + 1
        return b58.encode(bytes(raw))
    if kind == "trunc":
        return b58.encode(bytes(payload + chk[: a % 4]))
    if kind == "short":
        return b58.encode(payload[: a % 5])
    if kind == "single-sha":
        import hashlib
        return b58.encode(payload + hashlib.sha256(payload).digest()[:4])
    s = b58.encode(bytes(raw))
    if kind == "subst":
        if not s:
            return s
        pos = a % len(s)
        ch = ALPHA[b % 58]
        return s[:pos] + ch + s[pos + 1:]
    if kind == "look":
        if not s:
            return LOOKALIKE[b % 4]
        pos = a % len(s)
        return s[:pos] + LOOKALIKE[b % 4] + s[pos + 1:]
    if kind == "ins":
        pos = a % (len(s) + 1)
        return s[:pos] + (ALPHA + LOOKALIKE)[b % 62] + s[pos:]
    if kind == "del":
        if not s:
            return s
        pos = a % len(s)
        return s[:pos] + s[pos + 1:]
    if kind == "one":
        return "1" * (1 + a % 4) + s
    if kind == "ws-end":
        # a valid string with white space / control characters in front of or behind it (pasted, read from a file)
        w_ = WHITESPACE[b % len(WHITESPACE)]
        return [w_ + s, s + w_, w_ + s + w_][a % 3]
    if kind == "ws-inside":
        pos = 1 + a % max(1, len(s) - 1) if len(s) > 1 else 0
        return s[:pos] + WHITESPACE[b % len(WHITESPACE)] + s[pos:]
    if kind == "non-ascii":
        # characters outside ASCII that digit / case conversions map onto alphabet characters
        pos = a % (len(s) + 1)
        ch = NON_ASCII[b % len(NON_ASCII)]
        return s[:pos] + ch + s[pos + (a // 7) % 2:]
    if kind == "swap":
        if len(s) < 2:
            return s
        pos = a % (len(s) - 1)
        return s[:pos] + s[pos + 1] + s[pos] + s[pos + 2:]
    raise ValueError(kind)


KINDS = ["none", "chk", "pay", "trunc", "short", "single-sha", "subst", "look", "ins", "del", "one", "swap", "ws-end", "ws-inside",
         "non-ascii"]
WHITESPACE = [" ", "\n", "\t", "\r\n", "\r", "\x0b", "\x0c", "\x00", "\u00a0", "\u2003", "\u3000", "\ufeff", "  "]
NON_ASCII = ["\uff11", "\uff21", "\u0430", "\u0391", "\u00b9", "\u0661", "\u212a", "\u0131", "\u017f", "\u00e9"]


def gen_checked(tier):
    payload = st.one_of(
        st.binary(max_size=40),
        st.builds(lambda z, t: b"\x00" * z + t, st.integers(1, 6), st.binary(max_size=34)),
        st.builds(lambda v, t: bytes([v]) + t, st.sampled_from([0x00, 0x05, 0x6F, 0xC4, 0x80, 0xEF]),
                  st.binary(min_size=20, max_size=33)),
        st.binary(min_size=78, max_size=78),
    )
    return st.fixed_dictionaries({
        "payload": payload,
        "mut": st.tuples(st.sampled_from(KINDS), st.integers(0, 200), st.integers(0, 255)),
    })


def enum_checked(tier):
    # each of the four checksum bytes, several xor values, several payload shapes
    payloads = [b"", b"\x00", b"\x00" * 21, bytes(range(21)), b"\x80" + bytes(range(1, 33)) + b"\x01",
                bytes(range(78))]
    for p in payloads:
        yield {"payload": p, "mut": ["none", 0, 0]}
        yield {"payload": p, "mut": ["single-sha", 0, 0]}
        for idx in range(4):
            for x in (0, 1, 0x7F, 0xFE):
                yield {"payload": p, "mut": ["chk", idx, x]}
        for k in range(4):
            yield {"payload": p, "mut": ["trunc", k, 0]}
        for k in range(5):
            yield {"payload": p, "mut": ["short", k, 0]}
        for w_ in range(len(WHITESPACE)):
            for where in range(3):
                yield {"payload": p, "mut": ["ws-end", where, w_]}
    for raw4 in (b58.sha256d(b"")[:4],):
        yield {"payload": raw4, "mut": ["short", 4, 0]}   # exactly the checksum of the empty payload


def check_checked(case, ctx):
    h = _impl()
    s = build_checked(case)
    want = b58.decode_check(s)
    if case["mut"][0] != "none":
        # history: the genuine string is decoded first, then its corrupted sibling
        valid = b58.encode_check(case["payload"])
        st0, got0 = call(h.decode_base58_checksum, valid)
        if st0 == "exc" or got0 != case["payload"]:
            raise Violation("C10/checksum/refused-valid", "decode_base58_checksum(%r) -> %r" % (valid[:60], got0))
    st_, got = call(h.decode_base58_checksum, s=s) if len(s) % 2 else call(h.decode_base58_checksum, s)
    # the address helper built on top of it: version byte stripped, same acceptance rule
    st_a, got_a = call(h.b58decode_addr, s)
    if want is None and st_a == "ok":
        raise Violation("C10/checksum/b58decode_addr-accepted-invalid[%s]" % case["mut"][0],
                        "b58decode_addr(%r) returned %r for a string whose checksum/alphabet is wrong" % (s[:60], got_a))
    if want is not None and len(want) >= 1 and (st_a == "exc" or got_a != want[1:]):
        raise Violation("C10/checksum/b58decode_addr-differs", "b58decode_addr(%r) -> %r, expected %s" % (s[:60], got_a, want[1:].hex()))
    if want is None:
        ctx.count("invalid")
        if st_ == "ok":
            raise Violation("C10/checksum/accepted-invalid[%s]" % case["mut"][0],
                            "decode_base58_checksum(%r) returned %s for a string whose checksum/alphabet is "
                            "wrong (mutation %s)" % (s[:60], got.hex() if isinstance(got, bytes) else got,
                                                     case["mut"]))
        return
    ctx.count("valid")
    if st_ == "exc":
        raise Violation("C10/checksum/refused-valid", "decode_base58_checksum(%r) raised %r" % (s[:60], got))
    expect_eq("C10/checksum/payload-differs", "decode_base58_checksum(%r)" % s[:60], got, want)
    if case["mut"][0] == "none":
        enc = must_return("C10/checksum/encode-raised", "encode_base58_checksum", h.encode_base58_checksum,
                          case["payload"])
        if case["payload"]:
            expect_eq("C10/checksum/encode-differs", "encode_base58_checksum(%s)" % case["payload"][:12].hex(),
                      enc, s)
            # a caller that hands over a mutable buffer keeps it unchanged and can encode it again
            buf = bytearray(case["payload"])
            st1, e1 = call(h.encode_base58_checksum, buf)
            if st1 == "ok":
                st2, e2 = call(h.encode_base58_checksum, buf)
                if bytes(buf) != case["payload"] or e1 != s or st2 == "exc" or e2 != s:
                    raise Violation("C10/checksum/encode-touches-callers-buffer", "encode_base58_checksum(bytearray %s): first call "
                                    "%r, second call %r, buffer afterwards %s" % (case["payload"][:12].hex(), e1, e2, bytes(buf).hex()[:80]))
                # the caller changes its buffer in place (same length) and encodes again; then the stale pair
                # "new payload + old checksum" is offered to the decoder
                # (contents this process has not hashed before, so that the mutable object itself is what any memo sees first)
                buf = bytearray(case["payload"])
                buf[0] ^= 0x55
                first_p = bytes(buf)
                st0, e0 = call(h.encode_base58_checksum, buf)
                if st0 == "exc" or e0 != b58.encode_check(first_p):
                    raise Violation("C10/checksum/encode-differs", "encode_base58_checksum(bytearray %s) = %r" % (first_p[:12].hex(), e0))
                old_chk = b58.sha256d(first_p)[:4]
                buf[0] ^= 0x01
                buf[-1] ^= 0x80
                newp = bytes(buf)
                st3, e3 = call(h.encode_base58_checksum, buf)
                if st3 == "exc" or e3 != b58.encode_check(newp):
                    raise Violation("C10/checksum/stale-after-buffer-edit", "encode_base58_checksum of a bytearray edited in place after an "
                                    "earlier call gave %r, expected %s" % (e3, b58.encode_check(newp)))
                if b58.sha256d(newp)[:4] != old_chk:
                    st4, d4 = call(h.decode_base58_checksum, b58.encode(newp + old_chk))
                    if st4 == "ok":
                        raise Violation("C10/checksum/accepted-invalid[stale-checksum]", "decode_base58_checksum accepted the edited payload "
                                        "with the checksum of the earlier contents: %r" % (d4,))
                    st5, d5 = call(h.decode_base58_checksum, b58.encode_check(newp))
                    if st5 == "exc" or d5 != newp:
                        raise Violation("C10/checksum/refused-valid", "decode_base58_checksum refused the genuine string of the edited payload: %r" % (d5,))
            else:
                ctx.count("bytearray-payload-refused (not judged)")


def nt_checked(case):
    s = build_checked(case)
    if case["mut"][0] == "none":
        return case["payload"][:1] == b"\x00"
    return all(c in ALPHA for c in s)  # invalid-or-edited string that reaches the checksum comparison


def check_fuzz(case, ctx):
    """Byte-level oracle: structured (payload + mutation) or raw string over alphabet + look-alikes."""
    h = _impl()
    data = case["data"]
    if len(data) >= 3 and data[0] & 1:
        check_checked({"payload": data[3:], "mut": [KINDS[data[1] % len(KINDS)], data[2], data[0] >> 1]}, ctx)
        return
    s = "".join((ALPHA + LOOKALIKE)[b % 62] for b in data[1:])
    want = b58.decode_check(s)
    st_, got = call(h.decode_base58_checksum, s)
    if want is None:
        if st_ == "ok":
            raise Violation("C10/fuzz/accepted-invalid", "decode_base58_checksum(%r) returned %r" % (s[:60], got))
    elif st_ == "exc" or got != want:
        raise Violation("C10/fuzz/valid-differs", "decode_base58_checksum(%r) -> %r, expected %s" % (s[:60], got, want.hex()))
    try:
        wd = b58.decode(s)
    except ValueError:
        wd = None
    st_, got = call(h.decode_base58, s)
    if wd is None:
        if st_ == "ok":
            raise Violation("C10/fuzz/bad-character-accepted", "decode_base58(%r) returned %r" % (s[:60], got))
    elif s and (st_ == "exc" or got != wd):
        raise Violation("C10/fuzz/decode-differs", "decode_base58(%r) -> %r, expected %s" % (s[:60], got, wd.hex()))


FUZZ_CORPUS = [b"\x00" + b58.encode_check(b"\x00" + bytes(range(20))).encode(), b"\x01\x00\x00" + bytes(range(21)),
               b"\x03\x01\x05" + b"\x80" + bytes(range(32)) + b"\x01", b"\x05\x06\x07" + bytes(78)]


# ------------------------------------------------------------------------------ first use from several threads
def check_cold(case, ctx):
    """A fresh interpreter whose first Base58 calls happen on 2..3 threads at once (deterministic schedule)."""
    from vlib import coldrun
    threads = []
    wants = []
    for items in case["threads"]:
        calls, exp = [], []
        for payload, op in items:
            s = b58.encode(payload + b58.sha256d(payload)[:4])
            if op == "decode_check":
                calls.append(["helper", "decode_base58_checksum", [s]]); exp.append(("decode_base58_checksum(%r)" % s, {"hex": payload.hex()}))
            elif op == "decode":
                calls.append(["helper", "decode_base58", [s]]); exp.append(("decode_base58(%r)" % s, {"hex": (payload + b58.sha256d(payload)[:4]).hex()}))
            elif op == "encode":
                calls.append(["helper", "encode_base58", [{"hex": payload.hex()}]]); exp.append(("encode_base58(%s)" % payload.hex(), b58.encode(payload)))
            else:
                calls.append(["helper", "encode_base58_checksum", [{"hex": payload.hex()}]]); exp.append(("encode_base58_checksum(%s)" % payload.hex(), s))
        threads.append(calls)
        wants.append(exp)
    out = coldrun.run_case(threads, case["plan"])
    ctx.count("switches", out["switches"])
    ctx.nontrivial = out["switches"] >= 2
    if out["errors"]:
        raise Violation("C10/cold-start/crashed", "thread raised %r" % (out["errors"],))
    for t, exp in enumerate(wants):
        for (what, want), got in zip(exp, out["results"][str(t)]):
            if got[0] != "ok" or got[1] != want:
                raise Violation("C10/cold-start/first-use-differs", "in a fresh interpreter whose first Base58 calls run on %d "
                                "threads at once, %s gave %r, expected %r" % (len(threads), what, got, want))


def gen_cold(tier):
    payload = st.one_of(st.binary(min_size=1, max_size=40), st.builds(lambda z, t: b"\x00" * z + t, st.integers(1, 4), st.binary(min_size=1, max_size=30)))
    item = st.tuples(payload, st.sampled_from(["decode_check", "decode_check", "decode", "encode", "encode_check"]))
    return st.fixed_dictionaries({"threads": st.lists(st.lists(item, min_size=1, max_size=3), min_size=2, max_size=3),
                                  "plan": __import__("vlib.threads", fromlist=["plans"]).plans(max_run=40)})


def clauses():
    return [
        Clause("bytes", check_bytes,
               "z leading zero bytes (0..128) + tail with non-zero first byte, total 1..128 bytes (one case in three: up to "
               "2048 bytes); encode "
               "equals reference, leading '1' count == leading zero count, decode(encode(b)) == b; "
               "non-trivial = at least one leading zero byte",
               gen=lambda tier: _bytes_case(), nontrivial=nt_bytes,
               classes=lambda c: ["zeros=%s" % min(c["z"], 3), "all-zero" if not c["tail"] else "mixed"],
               n={"quick": 8000, "thorough": 400000}),
        Clause("strings", check_string,
               "non-empty strings over the alphabet (random, '1'-prefixed, all-'1', single characters): "
               "decode equals reference and encode(decode(s)) == s; non-trivial = starts with '1'",
               gen=gen_string, nontrivial=lambda c: c["s"].startswith("1"),
               n={"quick": 8000, "thorough": 400000}),
        Clause("checksum", check_checked,
               "valid Base58Check strings and constructed invalid ones: each checksum byte changed alone, "
               "payload byte changed, checksum truncated to 0..3 bytes, decoded length 0..4, single SHA-256, "
               "string-level substitution / look-alike (0OIl) / insertion / deletion / '1'-prefix / "
               "transposition; decoder returns P iff the reference decoder returns P, else raises; "
               "non-trivial = leading-zero payload (valid) or mutated string that passes the alphabet test",
               gen=gen_checked, enum=enum_checked, nontrivial=nt_checked,
               classes=lambda c: [c["mut"][0]],
               enum_desc="6 payload shapes x {valid, single-sha, 4 checksum bytes x 4 xor values, "
                         "truncations 0..3, decoded lengths 0..4}",
               n={"quick": 12000, "thorough": 600000}),
        Clause("cold-start-threads", check_cold,
               "one fresh interpreter per case: its first 1..3 Base58/Base58Check calls per thread run on 2..3 threads at "
               "once under the deterministic scheduler (lazily built module state is half-built only once per process); "
               "every result against the reference; non-trivial = >= 2 thread switches (measured)",
               gen=gen_cold, n={"quick": 64, "thorough": 2000}, shards={"quick": 16, "thorough": 16}),
        Clause("fuzz-decode", check_fuzz,
               "raw bytes decoded either into (payload, mutation) or into a string over the alphabet plus look-alikes; "
               "hypothesis st.binary in every tier and atheris/libFuzzer campaigns with the reference decoder as "
               "in-target oracle", gen=lambda tier: st.fixed_dictionaries({"data": st.binary(max_size=90)}),
               nontrivial=lambda c: len(c["data"]) >= 5,
               n={"quick": 3000, "thorough": 100000}, shards={"quick": 2, "thorough": 8},
               fuzz={"runs": {"quick": 20000, "thorough": 800000}, "campaigns": {"quick": 2, "thorough": 8},
                     "max_len": 140, "corpus": FUZZ_CORPUS}),
    ]
