"""C13 — Derivation is a pure function of root key and path, whatever happened before."""
import json
import sys
import threading

from hypothesis import strategies as st

from vlib import strategies as S
from vlib.engine import Clause, Violation
from vlib.ref import bip32 as R
from vlib.ref import bip85 as R85
from vlib.sched import Scheduler
from vlib.util import call
from vlib.props.c05 import KINDS

PROPERTY_ID = "C13"
OPTIMIZED = ['history']   # clauses run a second time under `python -O` (assert statements stripped)
RULE = ("histories: generated request sequences (by-path lookup incl. failing lookups, ckd, derive_path, bulk children, "
        "five address kinds, extended keys, str, address generators with next/send, BIP85, generate, Wasabi, repeats, "
        "concatenation) on ONE wallet and its shared node objects; schedules: 2..4 threads each running a generated "
        "request list on the shared objects, interleaved at line granularity by a settrace scheduler driven by a "
        "generated (thread, run-length) plan; oracle = independent BIP32/BIP85 models for node identity and stateless "
        "recomputation on fresh objects for composite results")
ASSUMPTIONS = ["interleavings are sampled at line granularity inside bip32.py, base_wallet.py, paper_wallet.py, bip85.py "
               "(not enumerated); bytecode-level preemption inside one line is covered only by the free-running clause",
               "address generators are advanced with send(k) for k >= 1 only"]
H = S.H
SMALL = [0, 1, 2, 3, H, H + 1]


def _impl():
    from btc_hd_wallet.paper_wallet import PaperWallet
    return PaperWallet


def _files():
    import btc_hd_wallet.bip32 as a
    import btc_hd_wallet.base_wallet as b
    import btc_hd_wallet.paper_wallet as c
    import btc_hd_wallet.bip85 as d
    import btc_hd_wallet.script as e
    import btc_hd_wallet.keys as f
    return [m.__file__ for m in (a, b, c, d, e, f)]


def idx():
    return st.one_of(st.sampled_from(SMALL), st.sampled_from(SMALL), S.indexes())


def short_path(max_len=3):
    return st.lists(idx(), max_size=max_len)


# ---------------------------------------------------------------------------------------------- summaries
def summary(node):
    prv = int.from_bytes(bytes(node.private_key), "big") if hasattr(node, "private_key") else None
    return [prv, node.public_key.sec().hex(), bytes(node.chain_code).hex(), node.depth, node.index,
            bytes(node.parent_fingerprint).hex(), str(node), node.extended_public_key()]


def ref_summary(rm, path, testnet):
    n = R.derive(rm, path)
    return [n.k, n.sec().hex(), n.c.hex(), n.depth, n.index, n.pfp.hex(), R.fmt_path(path, "m" if n.k is not None else "M"),
            n.xpub(R.TPUB if testnet else R.XPUB)]


class World:
    """The shared objects a history / schedule works on."""

    def __init__(self, seed, testnet, watch_only=False, rootpath=()):
        PW = _impl()
        self.seed, self.testnet, self.watch_only, self.rootpath = seed, testnet, watch_only, list(rootpath)
        self.rm = R.master(seed)
        if self.rootpath:
            # the wallet's root is an extended key BELOW the master (account-level import)
            self.rm = R.derive(self.rm, self.rootpath)
        if watch_only:
            # a public root: the watch-only wallet of the (master or deeper) extended public key
            self.xpub = self.rm.xpub(R.TPUB if testnet else R.XPUB)
            self.rm = self.rm.neuter()
            self.W = PW.from_extended_key(self.xpub)
            self.master_xprv = self.W.master.extended_public_key()
        elif self.rootpath:
            self.xprv = self.rm.xprv(R.TPRV if testnet else R.XPRV)
            self.W = PW.from_extended_key(self.xprv)
            self.master_xprv = self.W.master.extended_private_key()
        else:
            self.W = PW.from_bip39_seed_bytes(seed, testnet)
            self.master_xprv = self.W.master.extended_private_key()
        self.pool = [(self.W.master, [])]

    def make_twin(self):
        """Another wallet object over the SAME key material on the other network (same process)."""
        t = World(self.seed, not self.testnet, self.watch_only, self.rootpath)
        return t

    def root_string(self):
        m = self.W.master
        return m.extended_public_key() if self.watch_only else m.extended_private_key()

    def fresh_node(self, path):
        PW = _impl()
        if self.watch_only:
            w = PW.from_extended_key(self.xpub)
        elif self.rootpath:
            w = PW.from_extended_key(self.xprv)
        else:
            w = PW.from_bip39_seed_bytes(self.seed, self.testnet)
        node = w.master
        for i in path:
            node = node.ckd(i)
        return w, node

    def node(self, i):
        return self.pool[i % len(self.pool)]


def _parsed_twin(world, path):
    from btc_hd_wallet.bip32 import PrvKeyNode, PubKeyNode
    rn = R.derive(world.rm, path)
    if world.watch_only:
        return PubKeyNode.parse(rn.xpub(R.TPUB if world.testnet else R.XPUB), world.testnet)
    return PrvKeyNode.parse(rn.xprv(R.TPRV if world.testnet else R.XPRV), world.testnet)


def too_deep(path):
    return len(path) > 40


# ---------------------------------------------------------------------------------------------- requests
def do_request(world, req):
    """Execute on the SHARED objects. Returns (result, new_pool_entries)."""
    W = world.W
    kind = req[0]
    if kind == "by_path":
        node = W.by_path(R.fmt_path(req[1], "M" if world.watch_only else "m"))
        return summary(node), [(node, list(req[1]))]
    if kind == "bad_path":
        st_, v = call(W.by_path, req[1])
        return ("RAISES" if st_ == "exc" else ["RETURNED", str(v)]), []
    if kind == "other_wallet":
        # a second, short-lived wallet object of the OTHER network is put on the very same root node object and used once
        other = type(W)(master=W.master, testnet=not world.testnet) if req[1] else type(W)(W.master, not world.testnet)
        call(other.p2wpkh_address, other.master)
        return "OK", []
    if kind == "ckd":
        node, path = world.node(req[1])
        ch = node.ckd(req[2])
        return summary(ch), [(ch, path + [req[2]])]
    if kind == "derive_path":
        node, path = world.node(req[1])
        ch = node.derive_path(list(req[2]))
        return summary(ch), [(ch, path + list(req[2]))]
    if kind == "children":
        node, path = world.node(req[1])
        kids = node.generate_children((req[2], req[2] + req[3]))
        return [summary(k) for k in kids], [(k, path + [req[2] + j]) for j, k in enumerate(kids)][:2]
    if kind == "address":
        node, path = world.node(req[1])
        return getattr(W, req[2] + "_address")(node), []
    if kind == "temp_address":
        # the long-lived wallet is asked about several SHORT-lived standalone nodes (parsed from strings, dropped at once)
        from btc_hd_wallet.bip32 import PubKeyNode
        node, path = world.node(req[1])
        out = []
        for j in req[3]:
            xp = R.derive(world.rm, path + [j]).xpub(R.TPUB if world.testnet else R.XPUB)
            tmp = PubKeyNode.parse(xp, world.testnet)
            out.append(getattr(W, req[2] + "_address")(tmp))
            del tmp
        return out, []
    if kind == "node_keys_parsed":
        # a node that EQUALS a wallet node (same key, chain code, depth, index) but has no ancestry: parsed from its string
        node, path = world.node(req[1])
        return W.node_extended_keys(_parsed_twin(world, path)), []
    if kind == "foreign_pub":
        # a public node built by the caller from mutable buffers it keeps; used twice, then looked at again
        from btc_hd_wallet.bip32 import PubKeyNode
        node, path = world.node(req[1])
        rn = R.derive(world.rm, path)
        keybuf, ccbuf = bytearray(rn.sec()), bytearray(rn.c)
        fn = PubKeyNode(key=keybuf, chain_code=ccbuf, index=rn.index, depth=rn.depth, testnet=world.testnet, parent_fingerprint=rn.pfp)
        out = []
        for i in req[2]:
            ch = fn.ckd(i % H)
            out.append([ch.public_key.sec().hex(), bytes(ch.chain_code).hex(), ch.extended_public_key()])
        out.append([bytes(keybuf).hex(), bytes(ccbuf).hex(), fn.extended_public_key()])
        return out, []
    if kind == "node_keys":
        node, path = world.node(req[1])
        return W.node_extended_keys(node), []
    if kind == "xkeys":
        node, path = world.node(req[1])
        if world.watch_only:
            return [node.extended_public_key(), None], []
        return [node.extended_public_key(), node.extended_private_key()], []
    if kind == "xkeys_version":
        # explicit version numbers, the same integer handed to both entry points of one node object, in a generated order
        node, path = world.node(req[1])
        out = []
        for which in req[3]:
            if which == "pub" or world.watch_only:
                out.append(["pub", node.extended_public_key(version=req[2])])
            else:
                out.append(["prv", node.extended_private_key(version=req[2])])
        return out, []
    if kind == "str":
        node, path = world.node(req[1])
        return str(node), []
    if kind == "bip85":
        b = W.bip85
        app, param, index = req[1], req[2], req[3]
        if app == "mnemonic":
            return b.bip39_mnemonic(param, index), []
        if app == "wif":
            return b.wif(index), []
        if app == "xprv":
            return b.xprv(index), []
        if app == "hex":
            return b.hex(param, index), []
        return b.pwd(param, index), []
    if kind == "generate":
        return json.loads(json.dumps(W.generate(req[1], (req[2], req[2] + req[3])))), []
    if kind == "wasabi":
        return W.wasabi_json(), []
    if kind == "concat":
        node, path = world.node(req[1])
        a, b = list(req[2]), list(req[3])
        lst = list(a)                       # one list object, extended in place between the two calls
        first = node.derive_path(lst)
        lst.extend(b)
        whole = node.derive_path(lst)
        parts = first.derive_path(b)
        return [summary(whole), summary(parts)], []
    if kind == "gen_take":
        node, path = world.node(req[1])
        g = W.address_generator(node, getattr(W, req[2] + "_address"))
        out = [list(next(g))]
        for k in req[3]:
            out.append(list(g.send(k)) if k else list(next(g)))
        g.close()
        return out, []
    raise ValueError(kind)


def expected(world, req, pool_paths):
    """Stateless recomputation (reference models for node identity, fresh objects for composites)."""
    rm, tn = world.rm, world.testnet
    kind = req[0]

    def ppath(i):
        return pool_paths[i % len(pool_paths)]
    if kind == "by_path":
        return ref_summary(rm, req[1], tn)
    if kind == "bad_path":
        return "RAISES"
    if kind == "other_wallet":
        return "OK"
    if kind == "ckd":
        return ref_summary(rm, ppath(req[1]) + [req[2]], tn)
    if kind == "derive_path":
        return ref_summary(rm, ppath(req[1]) + list(req[2]), tn)
    if kind == "children":
        return [ref_summary(rm, ppath(req[1]) + [req[2] + j], tn) for j in range(req[3])]
    if kind == "address":
        w, node = world.fresh_node(ppath(req[1]))
        return getattr(w, req[2] + "_address")(node)
    if kind == "temp_address":
        out = []
        for j in req[3]:
            w, node = world.fresh_node(ppath(req[1]) + [j])
            out.append(getattr(w, req[2] + "_address")(node))
        return out
    if kind == "node_keys_parsed":
        w, _ = world.fresh_node([])
        return w.node_extended_keys(_parsed_twin(world, ppath(req[1])))
    if kind == "foreign_pub":
        rn = R.derive(rm, ppath(req[1])).neuter()
        vpub = R.TPUB if tn else R.XPUB
        out = []
        for i in req[2]:
            rc = R.ckd_pub(rn, i % H)
            out.append([rc.sec().hex(), rc.c.hex(), rc.xpub(vpub)])
        out.append([rn.sec().hex(), rn.c.hex(), rn.xpub(vpub)])
        return out
    if kind == "node_keys":
        w, node = world.fresh_node(ppath(req[1]))
        return w.node_extended_keys(node)
    if kind == "xkeys":
        n = R.derive(rm, ppath(req[1]))
        return [n.xpub(R.TPUB if tn else R.XPUB), None if world.watch_only else n.xprv(R.TPRV if tn else R.XPRV)]
    if kind == "xkeys_version":
        n = R.derive(rm, ppath(req[1]))
        out = []
        for which in req[3]:
            if which == "pub" or world.watch_only:
                out.append(["pub", n.xpub(req[2])])
            else:
                out.append(["prv", n.xprv(req[2])])
        return out
    if kind == "str":
        return R.fmt_path(ppath(req[1]), "M" if world.watch_only else "m")
    if kind == "bip85":
        # purity oracle: the same request on a FRESH wallet object (what the values should be is C12's business)
        fw, _ = world.fresh_node([])
        fresh_world = World.__new__(World)
        fresh_world.W = fw
        return do_request(fresh_world, req)[0]
    if kind == "generate":
        w, _ = world.fresh_node([])
        return json.loads(json.dumps(w.generate(req[1], (req[2], req[2] + req[3]))))
    if kind == "wasabi":
        w, _ = world.fresh_node([])
        return w.wasabi_json()
    if kind == "concat":
        s = ref_summary(rm, ppath(req[1]) + list(req[2]) + list(req[3]), tn)
        return [s, s]
    if kind == "gen_take":
        base = ppath(req[1])
        w, node = world.fresh_node(base)
        out = []
        i = 0
        for n_, k in enumerate([None] + list(req[3])):
            if n_ > 0:
                i += k or 1
            child = node.ckd(i) if False else None
            fw, fchild = world.fresh_node(base + [i])
            out.append([R.fmt_path(base + [i], "M" if world.watch_only else "m"), getattr(fw, req[2] + "_address")(fchild)])
        return out
    raise ValueError(kind)


def adapt(req, watch_only):
    """Watch-only worlds: indexes are folded into [0, 2^31) and private-only requests are dropped (-> None)."""
    req = list(req)
    if not watch_only:
        return req
    k = req[0]
    if k in ("bip85", "generate", "wasabi"):
        return None
    if k == "by_path":
        req[1] = [i % H for i in req[1]]
    elif k == "ckd":
        req[2] = req[2] % H
    elif k == "derive_path":
        req[2] = [i % H for i in req[2]]
    elif k == "children":
        req[2] = min(req[2] % H, H - 5)
    elif k == "concat":
        req[2] = [i % H for i in req[2]]
        req[3] = [i % H for i in req[3]]
    elif k == "bad_path":
        if req[1] == "m/-1'":
            req[1] = "M/0'"      # a hardened request is a failing lookup on a watch-only wallet
    return req


def request_ok(req, pool_paths):
    """Requests must stay inside the statement's domain (depth <= 255, hardened needs nothing special here)."""
    kind = req[0]
    if kind in ("ckd", "derive_path", "children", "concat", "gen_take", "temp_address", "foreign_pub"):
        base = pool_paths[req[1] % len(pool_paths)]
        extra = 1 if kind in ("ckd", "children", "gen_take", "temp_address", "foreign_pub") else len(req[2]) + (len(req[3]) if kind == "concat" else 0)
        return len(base) + extra <= 60
    return True


BAD_PATHS = ["m/x", "n/0", "m/0/abc", "m//1", "m/-1'", "m/4294967296", "", "m/1'h", "m/0/1/2147483648'"]
BIP85_REQ = st.one_of(
    st.tuples(st.just("bip85"), st.just("mnemonic"), st.sampled_from([12, 18, 24]), st.sampled_from([0, 1, 2])),
    st.tuples(st.just("bip85"), st.just("wif"), st.none(), st.sampled_from([0, 1, 2])),
    st.tuples(st.just("bip85"), st.just("xprv"), st.none(), st.sampled_from([0, 1])),
    st.tuples(st.just("bip85"), st.just("hex"), st.sampled_from([16, 32, 64]), st.sampled_from([0, 1])),
    st.tuples(st.just("bip85"), st.just("pwd"), st.sampled_from([20, 21, 86]), st.sampled_from([0, 1])),
)


def requests(light=False):
    p = st.integers(0, 30)
    base = [
        st.tuples(st.just("by_path"), short_path(4)),
        st.tuples(st.just("by_path"), short_path(4)),
        st.tuples(st.just("bad_path"), st.sampled_from(BAD_PATHS)),
        st.tuples(st.just("other_wallet"), st.booleans()),
        st.tuples(st.just("ckd"), p, idx()),
        st.tuples(st.just("ckd"), p, idx()),
        st.tuples(st.just("derive_path"), p, short_path(3)),
        st.tuples(st.just("children"), p, st.sampled_from([0, 0, 1, 2, 5, H, H - 2]), st.integers(0, 4)),
        st.tuples(st.just("address"), p, st.sampled_from(KINDS)),
        st.tuples(st.just("temp_address"), p, st.sampled_from(KINDS), st.lists(st.integers(0, 5), min_size=2, max_size=4)),
        st.tuples(st.just("node_keys"), p),
        st.tuples(st.just("node_keys_parsed"), p),
        st.tuples(st.just("foreign_pub"), p, st.lists(st.integers(0, 5), min_size=2, max_size=3)),
        st.tuples(st.just("xkeys"), p),
        st.tuples(st.just("xkeys_version"), p, st.sampled_from(sorted(R.SLIP132)), st.lists(st.sampled_from(["pub", "prv"]), min_size=2, max_size=4)),
        st.tuples(st.just("str"), p),
        st.tuples(st.just("concat"), p, short_path(2), short_path(2)),
        st.tuples(st.just("gen_take"), p, st.sampled_from(KINDS), st.lists(st.sampled_from([0, 0, 1, 2, 3, 7]), max_size=4)),
        BIP85_REQ,
    ]
    if not light:
        base += [st.tuples(st.just("generate"), st.sampled_from([0, 0, 1, 5]), st.sampled_from([0, 0, 1, 3]), st.integers(0, 2)),
                 st.tuples(st.just("wasabi"))]
    return st.one_of(*base)


def norm(x):
    return json.loads(json.dumps(x))


# ---------------------------------------------------------------------------------------------- histories
def gen_history(tier):
    gen_op = st.one_of(
        st.tuples(st.just("g_create"), st.integers(0, 30), st.sampled_from(KINDS)),
        st.tuples(st.just("g_next"), st.integers(0, 5)),
        st.tuples(st.just("g_next"), st.integers(0, 5)),
        st.tuples(st.just("g_send"), st.integers(0, 5), st.sampled_from([1, 1, 2, 3, 10])),
        st.tuples(st.just("repeat"), st.integers(0, 40)),
        st.tuples(st.just("repeat"), st.integers(0, 40)),
        st.tuples(st.just("twin"), requests(light=True)),
    )
    return st.fixed_dictionaries({
        "seed": S.seeds(16, 32), "testnet": st.booleans(), "watch_only": st.sampled_from([False, False, True]),
        "rootpath": st.sampled_from([[], [], [], [H + 84, H, H], [0], [H + 44, H + 1, H + 2, 0]]),
        "ops": st.one_of(st.lists(st.one_of(requests(), requests(), gen_op), min_size=1, max_size=10),
                         st.lists(st.one_of(requests(), requests(), gen_op), min_size=12, max_size=40)),
    })


def check_history(case, ctx):
    wo = bool(case.get("watch_only"))
    try:
        world = World(case["seed"], case["testnet"], wo, case.get("rootpath") or ())
    except R.Invalid:
        return
    mark = "M" if wo else "m"
    twin = None
    gens = []        # [generator, base_path, kind, model_index or None (not started)]
    done = []        # (req, result) of executed plain requests
    nontrivial = False
    for n, op in enumerate(case["ops"]):
        op = list(op)
        kind = op[0]
        where = "step %d %r" % (n, op)
        try:
            if kind == "g_create":
                node, path = world.node(op[1])
                if len(path) > 58:
                    continue
                gens.append([world.W.address_generator(node, getattr(world.W, op[2] + "_address")), list(path), op[2], None])
                continue
            if kind in ("g_next", "g_send"):
                if not gens:
                    continue
                g = gens[op[1] % len(gens)]
                if kind == "g_send" and g[3] is not None:
                    got = g[0].send(op[2])
                    g[3] += op[2]
                else:
                    got = next(g[0])
                    g[3] = 0 if g[3] is None else g[3] + 1
                fw, fchild = world.fresh_node(g[1] + [g[3]])
                want = [R.fmt_path(g[1] + [g[3]], mark), getattr(fw, g[2] + "_address")(fchild)]
                if list(got) != want:
                    raise Violation("C13/history/generator", "%s: generator over %s yielded %r, expected index %d -> %r"
                                    % (where, R.fmt_path(g[1]), got, g[3], want))
                nontrivial = nontrivial or g[3] > 0
                continue
            if kind == "twin":
                # the same key material in a second wallet object on the other network
                if twin is None:
                    twin = world.make_twin()
                treq = adapt(list(op[1]), wo)
                tpaths = [p for _, p in twin.pool]
                if treq is None or not request_ok(treq, tpaths):
                    continue
                if treq[0] in ("ckd", "derive_path", "children", "address", "temp_address", "node_keys", "node_keys_parsed", "foreign_pub", "xkeys", "xkeys_version", "str", "concat", "gen_take"):
                    treq[1] = treq[1] % len(twin.pool)
                want = norm(expected(twin, treq, tpaths))
                st_, res = call(do_request, twin, treq)
                if st_ == "exc":
                    raise Violation("C13/history/raised", "%s (twin wallet) raised %r" % (where, res))
                if norm(res[0]) != want:
                    raise Violation("C13/history/result-depends-on-other-wallet[%s]" % treq[0],
                                    "%s on a second wallet over the same keys (other network) gave %s, expected %s"
                                    % (where, str(norm(res[0]))[:300], str(want)[:300]))
                twin.pool.extend(res[1])
                nontrivial = True
                continue
            if kind == "repeat":
                if not done:
                    continue
                req, earlier = done[op[1] % len(done)]
                nontrivial = True
            else:
                req, earlier = adapt(op, wo), None
                if req is None:
                    continue
                if req[0] in ("ckd", "derive_path", "children", "address", "temp_address", "node_keys", "node_keys_parsed", "foreign_pub", "xkeys", "xkeys_version", "str", "concat", "gen_take"):
                    req[1] = req[1] % len(world.pool)   # resolve the node now; the pool is append-only
            pool_paths = [p for _, p in world.pool]
            if not request_ok(req, pool_paths):
                continue
            if req[0] in ("ckd", "derive_path", "children", "gen_take", "concat") and getattr(world.node(req[1])[0], "children", None):
                nontrivial = True
            want = norm(expected(world, req, pool_paths))
            st_, res = call(do_request, world, req)
            if st_ == "exc":
                raise Violation("C13/history/raised", "%s raised %r after %d earlier steps" % (where, res, n))
            got, new = res
            got = norm(got)
            if got != want:
                raise Violation("C13/history/result-depends-on-history[%s]" % req[0],
                                "%s gave %s, a fresh wallet gives %s" % (where, str(got)[:300], str(want)[:300]))
            if earlier is not None and got != earlier:
                raise Violation("C13/history/repeat-differs", "%s: same request answered differently than before" % where)
            done.append((req, got))
            world.pool.extend(new)
        except Violation:
            raise
        # invariants after every step
        m = world.W.master
        if world.root_string() != world.master_xprv or m.depth != world.rm.depth or m.index != world.rm.index \
                or m.public_key.sec() != world.rm.sec() or bytes(m.chain_code) != world.rm.c:
            raise Violation("C13/history/root-key-altered", "%s altered the root key" % where)
    ctx.nontrivial = nontrivial


# ---------------------------------------------------------------------------------------------- schedules
def gen_schedule(tier):
    return st.fixed_dictionaries({
        "seed": S.seeds(16, 32), "testnet": st.booleans(), "watch_only": st.sampled_from([False, False, True]),
        "setup": st.lists(short_path(3), min_size=1, max_size=3),
        "threads": st.lists(st.lists(requests(light=True), min_size=1, max_size=3), min_size=2, max_size=4),
        "twin_thread": st.sampled_from([None, None, 0, 1]),
        "plan": st.lists(st.tuples(st.integers(0, 3), st.one_of(st.integers(1, 12), st.integers(1, 60))), min_size=3, max_size=80),
    })


def gen_addr_schedule(tier):
    """Threads that only compute addresses / extended keys of shared nodes, switched every 1..8 lines."""
    p = st.integers(0, 30)
    req = st.one_of(st.tuples(st.just("address"), p, st.sampled_from(KINDS)),
                    st.tuples(st.just("address"), p, st.sampled_from(["p2wsh", "p2sh_p2wsh", "p2sh_p2wpkh"])),
                    st.tuples(st.just("node_keys"), p), st.tuples(st.just("xkeys"), p),
                    st.tuples(st.just("gen_take"), p, st.sampled_from(KINDS), st.lists(st.sampled_from([0, 1, 2]), max_size=2)))
    return st.fixed_dictionaries({
        "seed": S.seeds(16, 32), "testnet": st.booleans(), "watch_only": st.sampled_from([False, False, True]),
        "setup": st.lists(short_path(3), min_size=2, max_size=4),
        "threads": st.lists(st.lists(req, min_size=2, max_size=4), min_size=2, max_size=3),
        "twin_thread": st.sampled_from([None, None, None, 1]),
        "plan": st.lists(st.tuples(st.integers(0, 2), st.integers(1, 8)), min_size=5, max_size=60),
    })


def build_world(case):
    wo = bool(case.get("watch_only"))
    world = World(case["seed"], case["testnet"], wo)
    for p in case["setup"]:
        p = [i % H for i in p] if wo else list(p)
        node = world.W.master.derive_path(list(p))
        world.pool.append((node, list(p)))
    return world


def judge_threads(case, world, results, errors, pool_paths, ctx, sig):
    wmap = case.get("_worlds") or {}
    for t, reqs in enumerate(case["threads"]):
        if t in errors:
            raise Violation(sig + "/thread-crashed", "thread %d running %r raised %r" % (t, reqs, errors[t]))
        got_all = results.get(t)
        tw = wmap.get(t, world)
        for j, req in enumerate(reqs):
            req = adapt(req, world.watch_only)
            if req is None or not request_ok(req, pool_paths):
                continue
            want = norm(expected(tw, req, pool_paths))
            got = norm(got_all[j])
            if got != want:
                raise Violation(sig + "/result-depends-on-interleaving[%s]" % req[0],
                                "thread %d request %r gave %s, sequential recomputation on fresh objects gives %s"
                                % (t, req, str(got)[:300], str(want)[:300]))
    if world.root_string() != world.master_xprv:
        raise Violation(sig + "/root-key-altered", "root key changed during the concurrent run")
    # every child recorded on a shared node is the right child for its index
    for node, path in world.pool[: 1 + len(case["setup"])]:
        kids = getattr(node, "children", [])
        kids = list(kids.values()) if isinstance(kids, dict) else list(kids)
        for ch in kids:
            if len(path) < 60 and summary(ch)[:6] != ref_summary(world.rm, path + [ch.index], world.testnet)[:6]:
                raise Violation(sig + "/recorded-child-wrong", "node %s holds a wrong child for index %d" % (R.fmt_path(path), ch.index))


def worlds_for(case, world):
    """thread index -> world it works on (one thread may use the twin wallet of the other network)."""
    tt = case.get("twin_thread")
    out = {}
    twin = None
    for t in range(len(case["threads"])):
        if tt is not None and t == tt:
            if twin is None:
                twin = world.make_twin()
                for node, p in world.pool[1:]:
                    twin.pool.append((twin.W.master.derive_path(list(p)), list(p)))
            out[t] = twin
        else:
            out[t] = world
    return out


def thread_fn(world, reqs, pool_paths):
    def run():
        out = []
        for req in reqs:
            req = adapt(req, world.watch_only)
            if req is None or not request_ok(req, pool_paths):
                out.append(None)
                continue
            st_, res = call(do_request, world, req)
            out.append(res[0] if st_ == "ok" else ["EXC", repr(res)])
        return out
    return run


def check_schedule(case, ctx):
    try:
        world = build_world(case)
    except R.Invalid:
        return
    pool_paths = [p for _, p in world.pool]
    sched = Scheduler([tuple(x) for x in case["plan"]], _files())
    wmap = worlds_for(case, world)
    case = dict(case, _worlds=wmap)
    thunks = [thread_fn(wmap[t], reqs, pool_paths) for t, reqs in enumerate(case["threads"])]
    results, errors = sched.run(thunks)
    ctx.count("switch-points", sched.points)
    ctx.count("switches", sched.switches)
    in_ckd = any(site[1] in ("ckd", "generate_children", "derive_path") for site in sched.switch_sites)
    if in_ckd:
        ctx.count("schedules-with-switch-inside-derivation")
    ctx.nontrivial = in_ckd and sched.switches >= 2
    judge_threads(case, world, results, errors, pool_paths, ctx, "C13/schedule")


def check_free(case, ctx):
    """Unscripted schedules: real preemption with a tiny switch interval; same oracle."""
    try:
        world = build_world(case)
    except R.Invalid:
        return
    pool_paths = [p for _, p in world.pool]
    old = sys.getswitchinterval()
    results, errors = {}, {}
    barrier = threading.Barrier(len(case["threads"]))

    def wrap(t, fn):
        def body():
            try:
                barrier.wait(timeout=30)
                results[t] = fn()
            except BaseException as e:  # noqa: BLE001
                errors[t] = e
        return body
    wmap = worlds_for(case, world)
    case = dict(case, _worlds=wmap)
    sys.setswitchinterval(1e-6)
    try:
        ths = [threading.Thread(target=wrap(t, thread_fn(wmap[t], reqs, pool_paths)), daemon=True)
               for t, reqs in enumerate(case["threads"])]
        for th in ths:
            th.start()
        for th in ths:
            th.join(120)
    finally:
        sys.setswitchinterval(old)
    judge_threads(case, world, results, errors, pool_paths, ctx, "C13/free-running")


# ---------------------------------------------------------------------------------------------- long scans on one node
def enum_scan(tier):
    counts = [300, 257] if tier == "quick" else [300, 257, 520, 1030]
    j = 0
    for count in counts:
        for side in ("prv", "pub"):
            for via in ("children", "generator", "ckd-loop"):
                j += 1
                yield {"seed": bytes([j]) * 16, "testnet": bool(j & 1), "side": side, "via": via, "count": count,
                       "base": [44 + H, H, H, 0] if j % 2 else [0]}


def check_scan(case, ctx):
    """More children than any small fixed-size structure holds are derived from ONE node object (a gap-limit scan);
    afterwards early, middle and late indexes are asked again on that same object, and a second generator is started."""
    wo = case["side"] == "pub"
    try:
        world = World(case["seed"], case["testnet"], False)
    except R.Invalid:
        return
    W = world.W
    base = list(case["base"])
    node = W.master.derive_path(base)
    rbase = R.derive(world.rm, base)
    if wo:
        from btc_hd_wallet.bip32 import PubKeyNode
        node = PubKeyNode.parse(node.extended_public_key(), case["testnet"])
        rbase = rbase.neuter()
    count = case["count"]
    first = {}
    if case["via"] == "children":
        for k in node.generate_children((0, count)):
            first[k.index] = summary(k)[1:6]
    elif case["via"] == "generator":
        g = W.address_generator(node, W.p2wpkh_address)
        for i in range(count):
            pth, addr = next(g)
            first[i] = [pth, addr]
        g.close()
    else:
        for i in range(count):
            first[i] = summary(node.ckd(i))[1:6]
    ctx.count("__extra_evals__", count)
    probes = sorted({0, 1, 2, 43, count - 257, count - 256, count - 255, count // 2, count - 2, count - 1} & set(range(count)))
    mark = "M" if wo else "m"
    for i in probes:
        rc = R.ckd_pub(rbase, i) if wo else R.ckd_priv(rbase, i)
        want = [rc.sec().hex(), rc.c.hex(), rc.depth, rc.index, rc.pfp.hex()]
        ch = node.ckd(i)
        got = summary(ch)[1:6]
        if got != want:
            raise Violation("C13/scan/child-differs-after-long-scan", "after %d children were derived from one %s node (%s), "
                            "ckd(%d) on the same object gives %r, expected %r" % (count, case["side"], case["via"], i, got, want))
        if case["via"] != "generator" and first.get(i) != want:
            raise Violation("C13/scan/child-differs-during-long-scan", "child %d of %d derived in one scan (%s) was %r, expected %r"
                            % (i, count, case["via"], first.get(i), want))
        st_, deeper = call(lambda: summary(node.derive_path([i, 1]))[1:6])
        rd = R.ckd_pub(rc, 1) if wo else R.ckd_priv(rc, 1)
        if st_ == "exc" or deeper != [rd.sec().hex(), rd.c.hex(), rd.depth, rd.index, rd.pfp.hex()]:
            raise Violation("C13/scan/derive_path-after-long-scan", "after the scan, derive_path([%d, 1]) on the same node gives %r" % (i, deeper))
    g2 = W.address_generator(node, W.p2wpkh_address)
    got = [list(next(g2)), list(g2.send(5))]
    g2.close()
    want = []
    for i in (0, 5):
        rc = R.ckd_pub(rbase, i) if wo else R.ckd_priv(rbase, i)
        fw, fchild = world.fresh_node(base + [i])
        want.append([R.fmt_path(base + [i], "m"), fw.p2wpkh_address(fchild)])
    if [g_[1] for g_ in got] != [w_[1] for w_ in want]:
        raise Violation("C13/scan/second-generator", "a second address generator on a node that already served %d children "
                        "yields %r, expected indexes 0 and 5: %r" % (count, got, want))
    if case["via"] == "generator":
        for i in (0, count - 1):
            fw, fchild = world.fresh_node(base + [i])
            if first[i][1] != fw.p2wpkh_address(fchild):
                raise Violation("C13/scan/generator-yield", "yield %d of a %d-address scan was %r" % (i, count, first[i]))


def enum_deep_caller(tier):
    for j, n in enumerate((250, 254) if tier == "quick" else (250, 254, 255, 252)):
        yield {"seed": bytes([0x40 + j]) * 16, "levels": n, "margin": 180, "side": "prv" if j % 2 == 0 else "pub"}


def check_deep_caller(case, ctx):
    """One derive_path request of up to 250 levels made by a caller whose own stack is already deep (`margin` frames below
    the interpreter's recursion limit): the answer is the one single ckd steps give from an ordinary stack."""
    import sys
    from btc_hd_wallet.bip32 import PrvKeyNode, PubKeyNode
    rm = R.master(case["seed"])
    hard = case["side"] == "prv"
    path = [((7 * j + 1) % 1000) + (H if hard else 0) for j in range(case["levels"])]
    try:
        want = R.derive(rm if hard else rm.neuter(), path)
    except R.Invalid:
        return
    root = PrvKeyNode.master_key(case["seed"]) if hard else PubKeyNode.parse(rm.xpub(R.XPUB))
    step = root
    for i in path:
        step = step.ckd(i)

    def at_depth(n):
        if n > 0:
            return at_depth(n - 1)
        return call(root.derive_path, list(path))
    f, have = sys._getframe(), 0
    while f is not None:
        have, f = have + 1, f.f_back
    st_, got = at_depth(max(0, sys.getrecursionlimit() - have - case["margin"]))
    if st_ == "exc":
        raise Violation("C13/deep-caller/raised", "derive_path(<%d levels>) called %d frames below the recursion limit raised %r; "
                        "the same levels as single ckd steps succeed" % (case["levels"], case["margin"], got))
    for what, a, b in (("key", bytes(got.key)[-32:], bytes(step.key)[-32:]), ("chain code", bytes(got.chain_code), want.c),
                       ("depth", got.depth, len(path))):
        if a != b:
            raise Violation("C13/deep-caller/differs", "derive_path(<%d levels>) %s differs from the step-by-step result" % (case["levels"], what))


def clauses():
    return [
        Clause("deep-caller", check_deep_caller,
               "one derive_path request of 250..255 levels (private hardened, public normal) from a caller whose stack is "
               "within 180 frames of the recursion limit; equals single ckd steps and the reference",
               enum=enum_deep_caller, exhaustive=True, enum_desc="2 (4) path lengths", nontrivial=lambda c: True,
               shards={"quick": 2, "thorough": 4}),
        Clause("history", check_history,
               "1..40 requests on one wallet and its shared nodes, each answer compared with the independent model / a "
               "fresh wallet; failing lookups must fail every time; address generators: k-th yield has index "
               "sum-of-advances; repeats answer as before; root key unchanged after every step; non-trivial = a request "
               "on a node that already has children, a repeat, or a generator past its first yield",
               gen=gen_history, classes=lambda c: ["ops>=10" if len(c["ops"]) >= 10 else "ops<10", "watch-only" if c.get("watch_only") else "full",
                                  "root-depth=%d" % len(c.get("rootpath") or ())],
               n={"quick": 320, "thorough": 10000}, shards={"quick": 16, "thorough": 16}),
        Clause("schedules", check_schedule,
               "2..4 threads x 1..3 requests on shared wallet/nodes under the deterministic line-granularity scheduler "
               "with a generated (thread, run-length) plan of up to 80 entries; every request's answer must equal the "
               "sequential recomputation; children recorded on shared nodes must be right; non-trivial = >= 2 switches "
               "with at least one inside ckd / generate_children / derive_path (measured per run)",
               gen=gen_schedule, classes=lambda c: ["threads=%d" % len(c["threads"]), "watch-only" if c.get("watch_only") else "full"],
               n={"quick": 480, "thorough": 10000}, shards={"quick": 16, "thorough": 16}),
        Clause("schedules-addresses", check_schedule,
               "2..3 threads x 2..4 address / extended-key / generator requests on shared nodes, switched every 1..8 lines "
               "(fine-grained interleaving inside address construction, key serialisation and script serialisation)",
               gen=gen_addr_schedule, classes=lambda c: ["threads=%d" % len(c["threads"])],
               n={"quick": 300, "thorough": 10000}, shards={"quick": 16, "thorough": 16}),
        Clause("long-scan", check_scan,
               "gap-limit scans: 257 / 300 (thorough: also 520 / 1030) children derived from ONE node object (private or "
               "public; generate_children, address generator or a ckd loop), then early / middle / late indexes asked "
               "again on that object (ckd, derive_path), and a second generator started on it; against the reference",
               enum=enum_scan, exhaustive=True, enum_desc="2 (4) counts x {private, public} x 3 ways of scanning",
               nontrivial=lambda c: True, shards={"quick": 12, "thorough": 16}),
        Clause("free-running", check_free,
               "same requests on free-running threads with sys.setswitchinterval(1e-6) (unscripted preemption)",
               gen=gen_schedule, nontrivial=lambda c: len(c["threads"]) >= 3,
               n={"quick": 120, "thorough": 4000}, shards={"quick": 12, "thorough": 16}),
    ]
