"""C15 — Paranoia mode output contains no secret and leaves public data unchanged."""
import json
import os
import re
import shutil
import tempfile

from hypothesis import strategies as st

from vlib import cli
from vlib import patch
from vlib import strategies as S
from vlib.engine import Clause, Violation
from vlib.ref import b58
from vlib.ref import bip32 as R
from vlib.ref import bip39 as R39
from vlib.ref import bip85 as R85
from vlib.ref import classify as C
from vlib.util import call

PROPERTY_ID = "C15"
OPTIMIZED = ['filtered-output']   # clauses run a second time under `python -O` (assert statements stripped)
RULE = ("wallets from mnemonic + arbitrary passphrase, seed or xprv; both networks; accounts; intervals with 0..3 rows "
        "(incl. empty and reversed); a decoy wallet is filtered first in the same process; the filtered output is "
        "observed as the returned dict, through json(), pprint() on stdout, export_wallet() to a file and the CLI's "
        "--paranoia route; the secret set is computed by the reference, not read off the output's layout")
ASSUMPTIONS = ["substring leak test applies to secrets of >= 8 characters; a shorter passphrase occurring inside an "
               "address is a coincidence, and a leaf identical to the public leaf at the same position of the unfiltered "
               "output is exempt (counted)"]
H = S.H
SECTIONS = ("BIP44", "BIP49", "BIP84")


def _impl():
    from btc_hd_wallet.paper_wallet import PaperWallet
    import btc_hd_wallet.__main__ as M
    return PaperWallet, M


def gen_case(tier):
    ent = st.sampled_from([16, 20, 24, 28, 32]).flatmap(lambda n: st.binary(min_size=n, max_size=n))
    pw = st.one_of(st.just(""), S.unicode_text(12), st.text(alphabet=b58.ALPHABET, min_size=1, max_size=12),
                   st.sampled_from(["1", "m", "bc1q", "xpub", "password", "BIP44", "groups", "path"]),
                   __import__("vlib.props.c06", fromlist=["JSONISH"]).JSONISH)
    return st.fixed_dictionaries({
        "source": st.sampled_from(["mnemonic", "mnemonic", "seed", "xprv"]), "entropy": ent, "pw": pw,
        "seed": st.binary(min_size=64, max_size=64), "decoy": st.binary(min_size=64, max_size=64),
        "testnet": st.booleans(),
        "account": st.one_of(st.sampled_from([0, 0, 1, H - 2]), st.integers(0, H - 2)),
        "start": st.one_of(st.sampled_from([0, 1, 5, H - 2, H - 1]), st.integers(0, H - 5)),
        "rows": st.sampled_from([0, 0, 1, 2, 3, -1]),
        "cli": st.booleans(), "cli_file": st.booleans(),
        "tty": st.booleans(), "stray_testnet": st.booleans(),
        "paranoia_pos": st.sampled_from(["front", "front", "after-command", "end", "abbreviated-front", "abbreviated-end"]),
    })


def leaves(o, path=()):
    """Yield (position, string, is_key) for every dict key and string leaf at every depth."""
    if isinstance(o, dict):
        for k, v in o.items():
            yield path + ("key:" + str(k),), str(k), True
            yield from leaves(v, path + (str(k),))
    elif isinstance(o, (list, tuple)):
        for i, v in enumerate(o):
            yield from leaves(v, path + (i,))
    elif isinstance(o, str):
        yield path, o, False
    elif isinstance(o, bytes):
        yield path, o.hex(), False


def get_at(o, path):
    try:
        for p in path:
            if isinstance(p, str) and p.startswith("key:"):
                return p[4:] if p[4:] in o else None
            o = o[p]
        return o
    except Exception:  # noqa: BLE001
        return None


def secret_set(case, rm, unfiltered, testnet, account, interval):
    """Secrets by the reference: strings that must not occur, and private scalars."""
    secrets = {}
    scalars = set()

    def add(name, s):
        if isinstance(s, str) and s:
            secrets.setdefault(s, name)

    if case["source"] == "mnemonic":
        m = R39.encode(case["entropy"])
        add("mnemonic", m)
        add("passphrase", case["pw"])
        add("entropy-hex", case["entropy"].hex())
        add("bip39-seed-hex", R39.seed(m, case["pw"]).hex())
    elif case["source"] == "seed":
        add("bip39-seed-hex", case["seed"].hex())
    nodes = [("master", rm)]
    coin = 1 if testnet else 0
    for purpose in (44, 49, 84):
        acct = R.derive(rm, [purpose + H, coin + H, account + H])
        chain = R.ckd_priv(acct, 0)
        nodes += [("account-%d" % purpose, acct), ("chain-%d" % purpose, chain)]
        for idx in range(interval[0], max(interval[0], interval[1])):
            nodes.append(("row-%d-%d" % (purpose, idx), R.ckd_priv(chain, idx)))
    for name, n in nodes:
        scalars.add(n.k)
        k32 = n.k.to_bytes(32, "big")
        add(name + "-hex", k32.hex())
        add(name + "-HEX", k32.hex().upper())
        for ver in (b"\x80", b"\xef"):
            for suf in (b"\x01", b""):
                add(name + "-wif", b58.encode_check(ver + k32 + suf))
        for v, (typ, tn, p) in R.SLIP132.items():
            if typ == "prv":
                add(name + "-xprv", n.xprv(v))
    for wc in (24, 18, 12):
        add("bip85-mnemonic", R85.mnemonic(rm, wc, 0))
    for i in (0, 1, 2):
        add("bip85-wif", R85.wif(rm, i))
        add("bip85-xprv", R85.xprv(rm, i))
    # whatever the unfiltered record itself lists as secret
    for key in ("MASTER", "BIP85"):
        for _, s, is_key in leaves(unfiltered.get(key, {})):
            if not is_key:
                add("unfiltered-" + key, s)
    for sec in SECTIONS:
        blk = unfiltered.get(sec, {})
        add("unfiltered-prv", blk.get("account_extended_keys", {}).get("prv"))
        for row in blk.get("groups", []):
            if len(row) >= 4:
                add("unfiltered-wif", row[3])
    return secrets, scalars


def judge_output(sig, what, out, unfiltered, secrets, scalars, ctx):
    for pos, s, is_key in leaves(out):
        c = C.classify(s)
        if c["kind"] in ("wif", "xprv") or (c["kind"] == "xkey-unknown-version" and c["private"]):
            raise Violation(sig + "/private-key-encoding", "%s: %r at %r decodes as a %s" % (what, s, pos, c["kind"]))
        if c["kind"] == "bip39":
            raise Violation(sig + "/mnemonic", "%s: valid BIP39 sentence %r at %r" % (what, s, pos))
        if c["kind"] == "hex" and len(c["bytes"]) == 32 and int.from_bytes(c["bytes"], "big") in scalars:
            raise Violation(sig + "/private-scalar-hex", "%s: private scalar in hex at %r" % (what, pos))
        same_public = (not is_key and get_at(unfiltered, pos) == s and pos and pos[0] in SECTIONS
                       and not (len(pos) >= 3 and pos[1] == "account_extended_keys" and pos[2] == "prv")
                       and not (len(pos) >= 4 and pos[1] == "groups" and pos[3] == 3))
        for sec, name in secrets.items():
            hit = (sec == s) or (len(sec) >= 8 and sec in s)
            if not hit:
                continue
            if name == "passphrase" and same_public and not C.classify(s)["private"]:
                ctx.count("coincidence-with-public-leaf-skipped")
                continue
            if is_key and s in ("BIP44", "BIP49", "BIP84", "account_extended_keys", "groups", "path", "pub") and name == "passphrase":
                ctx.count("passphrase-equals-structural-key-skipped")
                continue
            raise Violation(sig + "/secret-present[%s]" % re.sub(r"-\d+(-\d+)?", "", name),
                            "%s: secret (%s) %r occurs in %r at %r" % (what, name, sec[:40], s[:80], pos))


def judge_identity(sig, what, out, unfiltered):
    if not isinstance(out, dict) or not set(SECTIONS) <= set(out):
        raise Violation(sig + "/sections", "%s: top-level keys %r" % (what, sorted(out) if isinstance(out, dict) else out))
    if set(out) & {"MASTER", "BIP85"}:
        raise Violation(sig + "/secret-section-kept", "%s: filtered output still has %r" % (what, sorted(set(out) & {"MASTER", "BIP85"})))
    for sec in SECTIONS:
        u, f = unfiltered[sec], out[sec]
        want = {"account_extended_keys": {"path": u["account_extended_keys"]["path"], "pub": u["account_extended_keys"]["pub"]},
                "groups": [list(row[:3]) for row in u["groups"]]}
        got = json.loads(json.dumps(f))
        if got != want:
            raise Violation(sig + "/public-data-changed", "%s: %s block is %r, the unfiltered public data is %r"
                            % (what, sec, str(got)[:300], str(want)[:300]))


def check_case(case, ctx):
    PW, M = _impl()
    testnet, account = case["testnet"], case["account"]
    rows = case["rows"]
    interval = [case["start"], case["start"] + rows] if rows >= 0 else [case["start"] + 2, case["start"]]
    try:
        if case["source"] == "mnemonic":
            m = R39.encode(case["entropy"])
            rm = R.master(R39.seed(m, case["pw"]))
            w = PW.from_mnemonic(m, case["pw"], testnet)
            argv_src = ["from-mnemonic", m] + (["--password", case["pw"]] if case["pw"] else [])
        elif case["source"] == "seed":
            rm = R.master(case["seed"])
            w = PW.from_bip39_seed_bytes(case["seed"], testnet)
            argv_src = ["from-bip39-seed", case["seed"].hex()]
        else:
            rm = R.master(case["seed"])
            w = PW.from_extended_key(rm.xprv(R.TPRV if testnet else R.XPRV))
            argv_src = ["from-master-xprv", rm.xprv(R.TPRV if testnet else R.XPRV)]
        R.master(case["decoy"])
    except R.Invalid:
        return
    # a different wallet on the same network/account is filtered first in this process
    decoy = PW.from_bip39_seed_bytes(case["decoy"], testnet)
    M.paranoia_mode(decoy.generate(account, tuple(interval)))
    U = w.generate(account, tuple(interval))
    secrets, scalars = secret_set(case, rm, U, testnet, account, interval)
    what = "%s wallet, testnet=%s, account=%d, interval=%r" % (case["source"], testnet, account, interval)
    st_, F = call(M.paranoia_mode, data=U) if case["cli"] else call(M.paranoia_mode, U)   # __main__ uses the keyword form
    if st_ == "exc":
        raise Violation("C15/filter/raised", "%s: paranoia_mode raised %r" % (what, F))
    outputs = [("returned dict", F)]
    # records that hold only the address sections (what bip44()/bip49()/bip84() give, or a record whose MASTER / BIP85 part the
    # caller already dropped) are filtered like any other record
    only_sections = {sec: json.loads(json.dumps(U[sec])) for sec in SECTIONS}
    st_, F2 = call(M.paranoia_mode, only_sections)
    if st_ == "ok":
        outputs.append(("filter applied to a record holding only the three address sections", F2))
    one = {"BIP84": json.loads(json.dumps(U["BIP84"]))}
    st_, F3 = call(M.paranoia_mode, data=one)
    if st_ == "ok":
        judge_output("C15/leak", "%s, filter applied to a record holding only the BIP84 section" % what, F3, U, secrets, scalars, ctx)
        if not isinstance(F3, dict) or json.loads(json.dumps(F3.get("BIP84"))) != json.loads(json.dumps(F.get("BIP84") if isinstance(F, dict) else None)):
            raise Violation("C15/identity/public-data-changed", "%s: filtering the BIP84 section alone gives %r" % (what, str(F3)[:200]))
    st_, js = call(w.json, F)
    if st_ == "exc":
        raise Violation("C15/json/raised", "%s: json(filtered) raised %r" % (what, js))
    outputs.append(("json()", json.loads(js)))
    with patch.cli([]) as io:
        st_, e = call(w.pprint, F)
        text = io["out"].getvalue()
    if st_ == "exc":
        raise Violation("C15/pprint/raised", "%s: pprint(filtered) raised %r" % (what, e))
    outputs.append(("pprint() stdout", json.loads(text)))
    # the same on a standard output that is an interactive terminal (isatty() true): whatever reaches the terminal is judged
    import pydoc
    old_pager = pydoc.pager
    pydoc.pager = lambda text_, title="": __import__("sys").stdout.write(text_)      # a pager shows the text on the terminal
    try:
        with patch.cli([], tty=True) as io:
            st_, e = call(w.pprint, data=F)
            text = io["out"].getvalue() + io["err"].getvalue()
    finally:
        pydoc.pager = old_pager
    if st_ == "exc":
        raise Violation("C15/pprint/raised", "%s: pprint(filtered) on a terminal raised %r" % (what, e))
    try:
        outputs.append(("pprint() on an interactive terminal", json.loads(text)))
    except ValueError:
        for tok in re.split(r"[\s\",:\[\]{}]+", text):
            if tok and C.classify(tok)["kind"] in ("wif", "xprv"):
                raise Violation("C15/leak/private-key-encoding", "%s: pprint(filtered) on a terminal showed %s" % (what, tok))
        ctx.count("terminal-output-not-json (secrets scanned token-wise)")
    tmp = tempfile.mkdtemp(prefix="c15-")
    try:
        fp = os.path.join(tmp, "w.json")
        call(w.export_wallet, fp, 4, U)          # the unfiltered record is saved first, the filtered one over it
        st_, e = call(w.export_wallet, fp, 4, F)
        if st_ == "exc" and isinstance(e, FileExistsError) and os.path.exists(fp):
            # an implementation may refuse to write over an existing file; then the filtered record goes to a new path
            ctx.count("export-refuses-to-overwrite (not judged)")
            fp = os.path.join(tmp, "w-filtered.json")
            st_, e = call(w.export_wallet, fp, 4, F)
        if st_ == "exc":
            raise Violation("C15/export/raised", "%s: export_wallet(filtered) raised %r" % (what, e))
        # the filtered record saved under a directory that does not exist yet: refused, or saved - filtered
        fp_new = os.path.join(tmp, "backups", "2026", "w.json")
        st_, e = call(w.export_wallet, fp_new, 4, F) if account % 2 else call(w.export_wallet, file_path=fp_new, data=F)
        if os.path.exists(fp_new):
            with open(fp_new) as f:
                t2 = f.read()
            try:
                outputs.append(("export_wallet() into a directory that did not exist", json.loads(t2)))
            except ValueError:
                raise Violation("C15/export/not-json", "%s: export into a missing directory left %d characters that are not JSON" % (what, len(t2)))
        else:
            ctx.count("export-into-missing-directory:" + ("refused" if st_ == "exc" else "nothing-written"))
        with open(fp) as f:
            text = f.read()
        try:
            outputs.append(("export_wallet() file written over the unfiltered export", json.loads(text)))
        except ValueError:
            raise Violation("C15/export/not-json", "%s: the filtered export written over an earlier unfiltered export of the "
                            "same path is not JSON any more (%d characters)" % (what, len(text)))
        if case["cli"]:
            to_file = bool(case.get("cli_file"))
            # the flag is written where the documentation puts it, or elsewhere on the line / abbreviated: the command may
            # refuse such a line (not judged), but whenever it accepts a line that asks for paranoia the output is filtered
            ppos = case.get("paranoia_pos", "front")
            flag = "--par" if ppos.startswith("abbreviated") else "--paranoia"
            argv = (["--account", str(account), "--interval", str(interval[0]), str(interval[1])]
                    + (["--file", "cli-out.json"] if to_file else [])
                    + (["--testnet"] if testnet and case["source"] != "xprv" else []))
            if ppos in ("front", "abbreviated-front"):
                argv = [flag] + argv + argv_src
            elif ppos == "after-command":
                argv = argv + argv_src[:1] + [flag] + argv_src[1:]
            else:
                argv = argv + argv_src + [flag]
            if case["source"] == "xprv" and case.get("stray_testnet"):
                # an extended key carries its own network; a --testnet flag beside it must not change the public data
                argv = ["--testnet"] + argv
                ctx.count("cli: --testnet beside an extended key")
            tty = bool(case.get("tty")) and not to_file
            if tty:
                pydoc.pager = lambda text_, title="": __import__("sys").stdout.write(text_)
            try:
                r = cli.run_main(argv, cwd=tmp, tty=tty)
            finally:
                pydoc.pager = old_pager
            ctx.count("cli[%s%s]:%s" % (ppos, ",tty" if tty else "", "accepted" if r["status"] == 0 else "refused"))
            if r["status"] == 0:
                try:
                    if to_file:
                        with open(os.path.join(tmp, "cli-out.json")) as f:
                            outputs.append(("CLI --paranoia --file output", json.load(f)))
                    else:
                        outputs.append(("CLI --paranoia stdout", json.loads(r["out"])))
                except (ValueError, OSError) as e:
                    raise Violation("C15/cli/not-json", "%s: CLI output is not JSON (%r): %r" % (what, e, r["out"][:200]))
                for tok in re.split(r"[\s\",:\[\]{}]+", r["out"] + " " + r["err"]):
                    if tok:
                        c = C.classify(tok)
                        if c["kind"] in ("wif", "xprv"):
                            raise Violation("C15/cli/private-key-encoding", "%s: CLI printed %s" % (what, tok))
            else:
                ctx.count("cli-rejected-arguments")
            # the requested file cannot be written (its parent is a regular file): whatever happens, no secret on stdio
            with open(os.path.join(tmp, "plainfile"), "w") as f:
                f.write("x")
            argv2 = ["--paranoia", "--file", os.path.join(tmp, "plainfile", "out.json"), "--interval", "0", "1"] \
                + (["--testnet"] if testnet and case["source"] != "xprv" else []) + argv_src
            r2 = cli.run_main(argv2, cwd=tmp)
            for stream, text in (("stdout", r2["out"]), ("stderr", r2["err"])):
                try:
                    blob = json.loads(text)
                except ValueError:
                    blob = None
                if isinstance(blob, dict):
                    judge_output("C15/leak", "%s, CLI --paranoia with an unwritable --file, %s" % (what, stream), blob, U, secrets, scalars, ctx)
                for tok in re.split(r"[\s\",:\[\]{}]+", text):
                    if tok and C.classify(tok)["kind"] in ("wif", "xprv"):
                        raise Violation("C15/cli/private-key-encoding", "%s: CLI with an unwritable --file printed %s on %s" % (what, tok, stream))
                if case["source"] == "mnemonic" and R39.encode(case["entropy"]) in text:
                    raise Violation("C15/cli/mnemonic-printed", "%s: CLI with an unwritable --file printed the mnemonic on %s" % (what, stream))
    finally:
        shutil.rmtree(tmp, ignore_errors=True)
    for name, out in outputs:
        judge_output("C15/leak", "%s, %s" % (what, name), out, U, secrets, scalars, ctx)
        judge_identity("C15/identity", "%s, %s" % (what, name), out, U)


# ---------------------------------------------------------------------------------------------- export beside other output
def gen_export_threads(tier):
    from vlib import threads as T
    return st.fixed_dictionaries({
        "seed": st.binary(min_size=64, max_size=64), "testnet": st.booleans(), "rows": st.sampled_from([1, 2]),
        "others": st.lists(st.sampled_from(["pprint-unfiltered", "export-unfiltered", "json-unfiltered", "pprint-filtered"]),
                           min_size=1, max_size=2),
        "plan": T.plans(max_run=12)})


def check_export_threads(case, ctx):
    """One thread saves the FILTERED record to a file while other threads print / save / render the UNFILTERED record of
    the same wallet (deterministic scheduler).  The filtered file must hold exactly the filtered data."""
    from vlib import threads as T
    PW, M = _impl()
    try:
        rm = R.master(case["seed"])
    except R.Invalid:
        return
    testnet = case["testnet"]
    w = PW.from_bip39_seed_bytes(case["seed"], testnet)
    interval = (0, case["rows"])
    U = w.generate(0, interval)
    F = M.paranoia_mode(U)
    secrets, scalars = secret_set({"source": "seed", "seed": case["seed"]}, rm, U, testnet, 0, list(interval))
    tmp = tempfile.mkdtemp(prefix="c15t-")
    try:
        fp = os.path.join(tmp, "filtered.json")
        thunks = [lambda: w.export_wallet(fp, 4, F)]
        for j, kind in enumerate(case["others"]):
            if kind == "pprint-unfiltered":
                thunks.append(lambda: w.pprint(U))
            elif kind == "pprint-filtered":
                thunks.append(lambda: w.pprint(F))
            elif kind == "json-unfiltered":
                thunks.append(lambda: w.json(U))
            else:
                thunks.append(lambda j=j: w.export_wallet(os.path.join(tmp, "full-%d.json" % j), 4, U))
        with patch.cli([]) as io:
            results, errors = T.run_scheduled(case["plan"], thunks, T.library_files("paper_wallet", "base_wallet", "__main__", "helper"), ctx)
        if errors:
            raise Violation("C15/export-threads/raised", "threads raised %r" % (errors,))
        with open(fp) as f:
            text = f.read()
        what = "filtered export_wallet() while other threads do %r with the unfiltered record" % (case["others"],)
        try:
            out = json.loads(text)
        except ValueError:
            raise Violation("C15/export-threads/not-json", "%s: the file is not one JSON document (%d characters): %r"
                            % (what, len(text), text[:120]))
        judge_output("C15/leak", what, out, U, secrets, scalars, ctx)
        judge_identity("C15/identity", what, out, U)
    finally:
        shutil.rmtree(tmp, ignore_errors=True)


def nt_case(case):
    return case["rows"] >= 1 and case["pw"] != ""


def classes_case(case):
    return ["src:" + case["source"], "rows=%d" % case["rows"], "pw-empty" if not case["pw"] else "pw", "cli" if case["cli"] else "api",
            "test" if case["testnet"] else "main"]


def clauses():
    return [
        Clause("filtered-output", check_case,
               "every dict key and string leaf at every depth of the filtered output (returned dict, json(), pprint() "
               "stdout, export_wallet() file, CLI with the paranoia flag in any position it is accepted in): not a WIF / extended private key / valid sentence / "
               "known scalar; no reference-computed secret occurs; BIP44/49/84 path, pub and the first three row columns "
               "identical to the unfiltered record and nothing else present; non-trivial = >= 1 row and non-empty "
               "passphrase; distinct by seed/account/interval",
               gen=gen_case, nontrivial=nt_case, classes=classes_case,
               n={"quick": 320, "thorough": 6000}, shards={"quick": 16, "thorough": 16}),
        Clause("export-threads", check_export_threads,
               "one thread saves the filtered record with export_wallet() while 1..2 other threads pprint / export / "
               "render the UNFILTERED record of the same wallet, under the deterministic line-granularity scheduler; the "
               "filtered file must be one JSON document holding exactly the filtered public data and no secret; "
               "non-trivial = >= 2 thread switches (measured)",
               gen=gen_export_threads, n={"quick": 200, "thorough": 6000}, shards={"quick": 16, "thorough": 16}),
    ]
