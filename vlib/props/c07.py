"""C07 — Extended keys round-trip through serialisation for all fields and 12 versions."""
from io import BytesIO

from hypothesis import strategies as st

from vlib import strategies as S
from vlib.engine import Clause, Violation
from vlib.ref import b58, secp
from vlib.ref import bip32 as R
from vlib.util import call, expect_eq

PROPERTY_ID = "C07"
OPTIMIZED = ['versions', 'roundtrip', 'master', 'x-above-order']   # clauses run a second time under `python -O` (assert statements stripped)
RULE = ("78-byte payloads valid per BIP32 (depth 0..255, fingerprint/child number zero iff depth 0, chain code, "
        "00||k or serP(kG)) serialised by the reference under all twelve SLIP-132 versions (exhaustive per case) and "
        "parsed from str / bytes / BytesIO; unknown versions from bit flips, multisig SLIP-132 and uniform 32-bit")
ASSUMPTIONS = ["depth-0 payloads carry a zero fingerprint and child number (BIP32 master); other combinations are not "
               "valid serialisations and are not generated"]
H, N = S.H, S.N
VERSIONS = sorted(R.SLIP132)
MULTISIG = [0x0295B43F, 0x02AA7ED3, 0x0295B005, 0x02AA7A99, 0x024289EF, 0x02575483, 0x024285B5, 0x02575048]


def _impl():
    from btc_hd_wallet.bip32 import PrvKeyNode, PubKeyNode
    from btc_hd_wallet.base_wallet import BaseWallet
    from btc_hd_wallet.wallet_utils import Version, Key
    return PrvKeyNode, PubKeyNode, BaseWallet, Version, Key


def payloads():
    def fix(d):
        if d["depth"] == 0:
            d["index"], d["pfp"] = 0, b"\x00" * 4
        return d
    return st.fixed_dictionaries({
        "k": S.scalars(), "c": S.chain_codes(),
        "depth": st.one_of(st.sampled_from([0, 1, 255]), st.integers(0, 255)),
        "index": S.indexes(), "pfp": st.one_of(S.fingerprints(), st.just(b"\x00" * 4), st.just(b"\xff" * 4)),
    }).map(fix)


def check_roundtrip(case, ctx):
    Prv, Pub, BaseWallet, Version, Key = _impl()
    ref = R.Node.from_priv(case["k"], case["c"], case["depth"], case["index"], case["pfp"])
    versions = case.get("versions") or VERSIONS
    for v in versions:
        typ, testnet, purpose = R.SLIP132[v]
        private = typ == "prv"
        cls = Prv if private else Pub
        raw = ref.payload(v, private)
        s = b58.encode_check(raw)
        tag = "version %#010x (%s)" % (v, s[:4])
        nodes = []
        for form, arg in (("str", s), ("bytes", raw), ("BytesIO", BytesIO(raw))):
            st_, n = call(cls.parse, s=arg, testnet=testnet) if form == "str" else call(cls.parse, arg, testnet)
            if st_ == "exc":
                raise Violation("C07/parse/raised[%s]" % form, "%s.parse(%s of %s) raised %r" % (cls.__name__, form, tag, n))
            nodes.append((form, n))
        for form, n in nodes:
            what = "%s parsed from %s, %s" % (cls.__name__, form, tag)
            expect_eq("C07/parse/depth", what + " depth", n.depth, ref.depth)
            expect_eq("C07/parse/child-number", what + " child number", n.index, ref.index)
            expect_eq("C07/parse/chain-code", what + " chain code", bytes(n.chain_code), ref.c)
            expect_eq("C07/parse/parent-fingerprint", what + " parent fingerprint", bytes(n.parent_fingerprint), ref.pfp)
            expect_eq("C07/parse/version", what + " parsed_version", n.parsed_version, v)
            if private:
                st_, kk = call(lambda: bytes(n.private_key))
                if st_ == "exc" or kk != ref.k.to_bytes(32, "big"):
                    raise Violation("C07/parse/key", what + " private key %r" % (kk,))
            st_, sec = call(lambda: n.public_key.sec())
            if st_ == "exc" or sec != ref.sec():
                raise Violation("C07/parse/key", what + " public key %r, expected %s" % (sec, ref.sec().hex()))
            st_, again = call(n.extended_private_key if private else n.extended_public_key, version=v)
            if st_ == "exc" or again != s:
                raise Violation("C07/reserialise/differs", "%s re-serialised as %r, original %s" % (what, again, s))
            if not isinstance(again, str) or len(again) != 111:
                raise Violation("C07/reserialise/length", "%s re-serialised to %d characters" % (what, len(again)))
            if private:
                vpub = R.VERSION_OF[("pub", testnet, purpose)]
                want_pub = b58.encode_check(ref.payload(vpub, False))
                st_, xp = call(n.extended_public_key, version=vpub)
                if st_ == "exc" or xp != want_pub:
                    got_raw = b58.decode_check(xp) if isinstance(xp, str) else None
                    leak = bool(got_raw) and ref.k.to_bytes(32, "big") in got_raw
                    raise Violation("C07/xpub/%s" % ("private-scalar-leaked" if leak else "differs"),
                                    "%s: extended_public_key(%#x) = %r, expected %s" % (what, vpub, xp, want_pub))
        # a node derived from a parsed one whose ancestors are not kept alive serialises with its real parent fingerprint
        if ref.depth < 255:
            try:
                rchild = R.ckd_priv(ref, 1) if private else R.ckd_pub(ref.neuter(), 1)
            except R.Invalid:
                rchild = None
            if rchild is not None:
                st_, child = call(lambda: cls.parse(s, testnet).ckd(1))
                if st_ == "exc":
                    raise Violation("C07/derived/raised", "%s: parse(...).ckd(1) raised %r" % (tag, child))
                want_c = b58.encode_check(rchild.payload(v, private))
                st_, sc = call(child.extended_private_key if private else child.extended_public_key, version=v)
                if st_ == "exc" or sc != want_c:
                    raise Violation("C07/derived/serialisation-after-parent-dropped", "%s: child of a temporary parsed node "
                                    "serialises as %r, expected %s" % (tag, sc, want_c))
                # the same child built with the public constructor and `parent=` an object that has derived nothing
                par = cls(key=(ref.k.to_bytes(32, "big") if private else ref.sec()), chain_code=case["c"], index=ref.index,
                          depth=ref.depth, testnet=testnet, parent_fingerprint=ref.pfp)
                ckey = rchild.k.to_bytes(32, "big") if private else rchild.sec()
                st_, built = call(cls, key=ckey, chain_code=rchild.c, index=1, depth=ref.depth + 1, testnet=testnet, parent=par)
                if st_ == "ok":
                    st_, sc = call(built.extended_private_key if private else built.extended_public_key, version=v)
                    if st_ == "exc" or sc != want_c:
                        raise Violation("C07/constructed-with-parent/serialisation", "%s: node constructed with parent=<node "
                                        "without recorded children> serialises as %r, expected %s" % (tag, sc, want_c))
                    st_, pf = call(lambda: bytes(built.parent_fingerprint))
                    if st_ == "exc" or pf != rchild.pfp:
                        raise Violation("C07/constructed-with-parent/parent-fingerprint", "%s: node constructed with "
                                        "parent=<node> reports parent fingerprint %r, expected %s" % (tag, pf, rchild.pfp.hex()))
                    st_, back = call(cls.parse, want_c, testnet)
                    if st_ == "ok" and not (back == built):
                        raise Violation("C07/constructed-with-parent/not-equal-to-parsed", "%s: node constructed with parent=<node> "
                                        "!= node parsed from its serialisation" % tag)
        # a stream whose current position is not 0 (header already consumed, nodes back to back)
        stream = BytesIO(b"\xaa" * 5 + raw + raw + raw[:40])
        stream.read(5)
        st_, n = call(cls.parse, stream, testnet)
        if st_ == "exc" or not (n == nodes[1][1]) or n.parsed_version != v:
            raise Violation("C07/parse/stream-offset", "%s: parsing from a stream positioned at offset 5 gave %r" % (tag, n))
        # exactly one 78-byte record is consumed: the next key stored right behind it parses from the same stream
        if stream.tell() != 5 + 78:
            raise Violation("C07/parse/stream-position", "%s: after parsing one key from a stream the position is %d, expected %d"
                            % (tag, stream.tell(), 5 + 78))
        st_, n2 = call(cls.parse, stream, testnet)
        if st_ == "exc" or not (n2 == nodes[1][1]) or n2.parsed_version != v or stream.tell() != 5 + 156:
            raise Violation("C07/parse/stream-second-record", "%s: the second of two keys stored back to back parsed as %r (stream "
                            "position %d)" % (tag, n2, stream.tell()))
        for (fa, a), (fb, b) in ((nodes[0], nodes[1]), (nodes[1], nodes[2]), (nodes[0], nodes[2])):
            if not (a == b):
                raise Violation("C07/parse/forms-unequal", "%s: node from %s != node from %s" % (tag, fa, fb))
        # direct construction -> serialise -> parse -> equal
        key = ref.k.to_bytes(32, "big") if private else ref.sec()
        node = cls(key=key, chain_code=case["c"], index=ref.index, depth=ref.depth, testnet=testnet,
                   parent_fingerprint=ref.pfp)
        st_, s2 = call(node.extended_private_key if private else node.extended_public_key, version=v)
        if st_ == "exc" or s2 != s:
            raise Violation("C07/serialise/differs", "constructed %s under %s serialises to %r, expected %s"
                            % (cls.__name__, tag, s2, s))
        st_, back = call(cls.parse, s2, testnet)
        if st_ == "exc" or not (back == node):
            raise Violation("C07/serialise/parse-not-equal", "parse(serialise(node)) != node for %s" % tag)
        # default version = the BIP32 one of the node's own network
        st_, sd = call(node.extended_private_key if private else node.extended_public_key)
        want_default = b58.encode_check(ref.payload(R.VERSION_OF[(typ, testnet, 44)], private))
        if st_ == "exc" or sd != want_default:
            raise Violation("C07/serialise/default-version", "default serialisation %r, expected %s" % (sd, want_default))
        # the caller's node object is only wrapped, never rewritten, when a wallet is built around it (flag defaulted)
        mine = cls.parse(s, testnet)
        before = (mine.extended_private_key() if private else mine.extended_public_key(), bool(mine.testnet))
        st_, wrap = call(BaseWallet, master=mine)
        if st_ == "ok":
            call(wrap.p2wpkh_address, mine)
            after = (mine.extended_private_key() if private else mine.extended_public_key(), bool(mine.testnet))
            if after != before or not (mine == nodes[0][1]):
                raise Violation("C07/wallet/callers-node-rewritten", "%s: after BaseWallet(master=node) the caller's node serialises "
                                "by default as %r (testnet=%r), before as %r (testnet=%r)" % (tag, after[0], after[1], before[0], before[1]))
        # a wallet built from the string takes type/network from the prefix alone
        st_, w = call(BaseWallet.from_extended_key, s)
        if st_ == "exc":
            raise Violation("C07/wallet/raised", "from_extended_key(%s) raised %r" % (tag, w))
        if bool(w.testnet) != testnet or bool(w.watch_only) != (not private) or type(w.master) is not cls:
            raise Violation("C07/wallet/type-or-network", "from_extended_key(%s): testnet=%r watch_only=%r master=%s"
                            % (tag, w.testnet, w.watch_only, type(w.master).__name__))
        st_, sd = call(w.master.extended_private_key if private else w.master.extended_public_key)
        if st_ == "exc" or sd != want_default:
            raise Violation("C07/wallet/master-node-network", "wallet from %s: master re-serialises by default as %r, "
                            "expected %s" % (tag, sd, want_default))
        if not (w.master == nodes[0][1]):
            raise Violation("C07/wallet/master-not-equal", "wallet master != node parsed from the same string (%s)" % tag)


def nt_roundtrip(case):
    return (case["depth"] > 0 and case["pfp"] != b"\x00" * 4) or case["depth"] in (0, 255) or case["index"] >= H \
        or S.scalar_class(case["k"]) in ("tiny", "leading-zero")


def classes_roundtrip(case):
    return ["depth=%s" % ("0" if case["depth"] == 0 else "255" if case["depth"] == 255 else "mid"),
            "hardened" if case["index"] >= H else "normal", "k:" + S.scalar_class(case["k"])]


# ------------------------------------------------------------------------------------ master
def check_master(case, ctx):
    Prv, Pub, BaseWallet, Version, Key = _impl()
    seed = case["seed"]
    try:
        ref = R.master(seed)
    except R.Invalid:
        return
    for testnet in (False, True):
        st_, m = call(Prv.master_key, seed, testnet)
        if st_ == "exc":
            raise Violation("C07/master/raised", "master_key raised %r" % (m,))
        vprv = R.TPRV if testnet else R.XPRV
        vpub = R.TPUB if testnet else R.XPUB
        for what, f, want in (("extended_private_key", m.extended_private_key, ref.xprv(vprv)),
                              ("extended_public_key", m.extended_public_key, ref.xpub(vpub))):
            st_, s = call(f)
            if st_ == "exc" or s != want:
                raise Violation("C07/master/string", "master %s() = %r, expected %s" % (what, s, want))
            raw = b58.decode_check(s)
            if raw[4] != 0 or raw[5:9] != b"\x00" * 4 or raw[9:13] != b"\x00" * 4:
                raise Violation("C07/master/metadata", "master key serialised with depth/fingerprint/index %s" % raw[4:13].hex())
        # wallet-level export of account nodes of both SLIP-44 coin types: network of the prefix = the wallet's, flavour = purpose
        st_, w = call(BaseWallet, master=m, testnet=testnet)
        if st_ == "ok":
            for purpose in (44, 49, 84):
                for coin in (0, 1):
                    path = [H + purpose, H + coin, H + (seed[0] & 3)]
                    try:
                        rn = R.derive(ref, path)
                    except R.Invalid:
                        continue
                    node = m.derive_path(list(path))
                    for kind, f, render in (("pub", w.node_extended_public_key, rn.xpub), ("prv", w.node_extended_private_key, rn.xprv)):
                        want = render(R.VERSION_OF[(kind, testnet, purpose)])
                        st_, s = call(f, node)
                        if st_ == "exc" or s != want:
                            raise Violation("C07/wallet-export/version", "%snet wallet, node %s: node_extended_%s_key = %r, expected %s"
                                            % ("test" if testnet else "main", R.fmt_path(path), "public" if kind == "pub" else "private", s, want))
            ctx.count("wallet-export-both-coin-types")


# ------------------------------------------------------------------------------------ version table
def enum_versions(tier):
    for v in VERSIONS:
        yield {"v": v, "known": True}
    for v in MULTISIG:
        yield {"v": v, "known": False}
    for v in VERSIONS:
        for bit in range(32):
            yield {"v": v ^ (1 << bit), "known": False}
    for v in (0, 1, 0xFFFFFFFF, 0x0488B21D, 0x0488B21F, 0x04000000):
        yield {"v": v, "known": False}


def gen_versions(tier):
    return st.fixed_dictionaries({"v": st.integers(0, 2 ** 32 - 1), "known": st.just(False)})


def check_version(case, ctx):
    Prv, Pub, BaseWallet, Version, Key = _impl()
    v = case["v"]
    known = v in R.SLIP132
    node = R.Node.from_priv(0xC0FFEE + v, bytes([v & 0xFF]) * 32, 3, 7, b"\x01\x02\x03\x04")
    if known:
        typ, testnet, purpose = R.SLIP132[v]
        st_, ver = call(Version.parse, v)
        if st_ == "exc":
            raise Violation("C07/version/known-refused", "Version.parse(%#x) raised %r" % (v, ver))
        got = (ver.key_type.name.lower(), bool(ver.testnet), {0: 44, 1: 49, 2: 84}[ver.bip_type.value])
        expect_eq("C07/version/table", "Version.parse(%#x) -> (type, testnet, purpose)" % v, got, (typ, testnet, purpose))
        expect_eq("C07/version/int-inverse", "int(Version.parse(%#x))" % v, int(ver), v)
        kt = Key.PRV.value if typ == "prv" else Key.PUB.value
        st_, iv = call(lambda: int(Version(key_type=kt, bip={44: 0, 49: 1, 84: 2}[purpose], testnet=testnet)))
        if st_ == "exc" or iv != v:
            raise Violation("C07/version/constructor", "int(Version(%s, %d, testnet=%s)) = %r, expected %#x"
                            % (typ, purpose, testnet, iv, v))
        return
    call(Version.bip, v)                 # a lookup of the flavour of an unknown version must not whitelist it
    call(Version.valid_version, v)
    st_, ver = call(Version.parse, v)
    if st_ == "ok":
        raise Violation("C07/version/unknown-accepted", "Version.parse(%#x) returned %r" % (v, ver))
    for private in (True, False):
        s = b58.encode_check(node.payload(v, private))
        st_, w = call(BaseWallet.from_extended_key, s)
        if st_ == "ok":
            raise Violation("C07/wallet/unknown-version-accepted", "from_extended_key built a wallet from version %#010x "
                            "(%s...): testnet=%r watch_only=%r" % (v, s[:8], w.testnet, w.watch_only))


# ------------------------------------------------------------------------------------ public keys whose x is >= the group order
def high_x_points(count=6):
    """Curve points with n <= x < p (valid public keys; about 2^-128 of all points, so they are constructed, not drawn)."""
    out, x = [], N
    while len(out) < count:
        for odd in (False, True):
            pt = secp.lift_x(x, odd)
            if pt is not None:
                out.append(pt)
        x += 1
    return out[:count]


def enum_highx(tier):
    for j, pt in enumerate(high_x_points(6 if tier == "quick" else 16)):
        yield {"pt": [pt[0], pt[1]], "c": bytes([j + 1]) * 32, "depth": [0, 1, 3, 255][j % 4], "index": [0, 5, H + 1, 2 ** 32 - 1][j % 4]}


def check_highx(case, ctx):
    """Only a private key is bounded by the group order n; the x coordinate of a public key is bounded by the field prime p."""
    Prv, Pub, BaseWallet, Version, Key = _impl()
    pt = tuple(case["pt"])
    depth = case["depth"]
    index, pfp = (0, b"\x00" * 4) if depth == 0 else (case["index"], b"\x11\x22\x33\x44")
    ref = R.Node(None, pt, case["c"], depth, index, pfp)
    for v in VERSIONS:
        typ, testnet, purpose = R.SLIP132[v]
        if typ != "pub":
            continue
        raw = ref.payload(v, False)
        s = b58.encode_check(raw)
        tag = "extended public key with x >= n under version %#010x (%s)" % (v, s[:4])
        for form, arg in (("str", s), ("bytes", raw), ("BytesIO", BytesIO(raw))):
            st_, n = call(Pub.parse, arg, testnet)
            if st_ == "exc":
                raise Violation("C07/high-x/parse-raised[%s]" % form, "%s: parse(%s) raised %r" % (tag, form, n))
            st_, again = call(n.extended_public_key, version=v)
            if st_ == "exc" or again != s:
                raise Violation("C07/high-x/reserialise", "%s parsed from %s re-serialises as %r" % (tag, form, again))
            st_, sec = call(lambda: n.public_key.sec())
            if st_ == "exc" or sec != ref.sec():
                raise Violation("C07/high-x/public-key", "%s: public_key.sec() = %r" % (tag, sec))
        st_, w = call(BaseWallet.from_extended_key, s)
        if st_ == "exc" or not w.watch_only or bool(w.testnet) != testnet:
            raise Violation("C07/high-x/wallet", "%s: from_extended_key gave %r" % (tag, w))
        if depth < 255:
            try:
                rc = R.ckd_pub(ref, 0)
            except R.Invalid:
                continue
            st_, ch = call(lambda: Pub.parse(s, testnet).ckd(0).extended_public_key(version=v))
            if st_ == "exc" or ch != b58.encode_check(rc.payload(v, False)):
                raise Violation("C07/high-x/child", "%s: child 0 serialises as %r" % (tag, ch))


def _cold_build(it):
    k, c, depth, index, pfp, v = it
    if depth == 0:
        index, pfp = 0, b"\x00" * 4
    ref = R.Node.from_priv(k, c, depth, index, pfp)
    typ, testnet, purpose = R.SLIP132[v]
    private = typ == "prv"
    s = b58.encode_check(ref.payload(v, private))
    cls = "PrvKeyNode" if private else "PubKeyNode"
    meth = "extended_private_key" if private else "extended_public_key"
    return (["bip32", cls + ".parse", [s, testnet], [[meth, [v]]]], s, "%s.parse(%s...).%s(%#x)" % (cls, s[:8], meth, v))


def clauses():
    return [
        Clause("roundtrip", check_roundtrip,
               "each generated payload under all 12 versions: parse from str/bytes/BytesIO (equal nodes, every field, "
               "parsed_version), identical 111-character re-serialisation, extended_public_key of private nodes equals "
               "the reference public payload, construct->serialise->parse->equal, default version, wallet type/network "
               "from the prefix; non-trivial = depth>0 with non-zero fingerprint, depth in {0,255}, hardened index, or "
               "tiny/leading-zero scalar",
               gen=lambda tier: payloads(), nontrivial=nt_roundtrip, classes=classes_roundtrip,
               n={"quick": 1500, "thorough": 20000}, shards={"quick": 16, "thorough": 16}),
        Clause("master", check_master,
               "master_key(seed) for seeds of 1..64 bytes on both networks: strings equal the reference and carry zero "
               "depth, fingerprint and child number", gen=lambda tier: st.fixed_dictionaries({"seed": S.seeds(1, 64)}),
               nontrivial=lambda c: len(c["seed"]) != 64, n={"quick": 400, "thorough": 20000},
               shards={"quick": 8, "thorough": 16}),
        Clause("versions", check_version,
               "the 12 constants against the SLIP-132 table (Version.parse, int inverse, constructor); unknown versions "
               "= 8 multisig constants, all 384 single-bit flips of the twelve, edge values and uniform 32-bit: "
               "Version.parse and BaseWallet.from_extended_key (private and public payload) must raise",
               enum=enum_versions, gen=gen_versions, exhaustive=True,
               enum_desc="12 known versions, 8 multisig, 384 one-bit neighbours, 6 edge values",
               n={"quick": 1500, "thorough": 100000}, shards={"quick": 8, "thorough": 16}),
        __import__("vlib.cold", fromlist=["x"]).cold_clause(
            "C07", st.tuples(S.scalars(), S.chain_codes(), st.sampled_from([0, 1, 3, 255]), S.indexes(), S.fingerprints(), st.sampled_from(VERSIONS)),
            _cold_build, "parse an extended key and serialise it again under its version"),
        Clause("x-above-order", check_highx,
               "extended public keys whose public-key x coordinate lies in [n, p) (constructed: x = n, n+1, ... until on "
               "the curve), all six public versions, str / bytes / stream: parse, re-serialise, wallet import and a child "
               "derivation must work exactly as for any other valid point",
               enum=enum_highx, exhaustive=True, enum_desc="6 (quick) / 16 (thorough) points with n <= x < p x 6 public versions",
               nontrivial=lambda c: True, shards={"quick": 6, "thorough": 16}),
    ]
