"""C06 — Paper-wallet records are mutually consistent and follow BIP44/49/84."""
import json
import unicodedata

from hypothesis import strategies as st

from vlib import strategies as S
from vlib.engine import Clause, Violation
from vlib.ref import b58, hashes, secp
from vlib.ref import bip32 as R
from vlib.ref import bip39 as R39
from vlib.ref import classify as C
from vlib.util import call

PROPERTY_ID = "C06"
OPTIMIZED = ['records']   # clauses run a second time under `python -O` (assert statements stripped)
RULE = ("wallet source (mnemonic from generated entropy + passphrase, raw seed, master xprv) x network x account "
        "{0,1,2^31-1,uniform} x interval [s,e) with s in {0,1,2^31-2,uniform}, 0..4 rows or e < s; a second generate() "
        "with another interval/account on the same wallet object; every field decoded independently and compared with "
        "own BIP32 derivation")
ASSUMPTIONS = ["accounts and intervals inside [0, 2^31) (the property's domain)",
               "the BIP85 block of the record is judged by C12"]
H = S.H
PURPOSES = {"BIP44": (44, "p2pkh"), "BIP49": (49, "p2sh-p2wpkh"), "BIP84": (84, "p2wpkh")}


def _impl():
    from btc_hd_wallet.paper_wallet import PaperWallet
    return PaperWallet


def intervals():
    start = st.one_of(st.sampled_from([0, 1, H - 2, H - 4]), st.integers(0, H - 5))
    return st.one_of(
        st.builds(lambda s, n: [s, min(s + n, H)], start, st.integers(0, 4)),
        st.builds(lambda s, d: [s, max(0, s - d)], start, st.integers(1, 3)),   # e < s: also empty
    )


def accounts():
    # edges, numbers that coincide with constants used at other levels of the same paths (purposes, coin types,
    # the BIP85 root), small numbers, uniform
    return st.one_of(st.sampled_from([0, 1, H - 1, H - 2]), st.sampled_from([44, 49, 84, 2, 83696968]),
                     st.integers(0, 100), st.integers(0, H - 1))


# passphrases that look like pieces of the JSON / row syntax the record is rendered in
JSONISH = st.lists(st.sampled_from(["[", "]", "{", "}", ",", ":", '"', "\\", "  ", " ", "\n", "\t", "a", "[ ", " ]", "m/44'", "null", "\u00e9"]),
                   min_size=1, max_size=10).map("".join)
_TOK = st.sampled_from(["a", "b1", "  ", " ", ",", ", ", ":", '"', "\t", "\n", "x  y", "'"])
JSONISH = st.one_of(JSONISH, st.builds(lambda a, o, inner, c, b: a + o + "".join(inner) + c + b, st.sampled_from(["", "p ", "correct "]),
                                       st.sampled_from(["[", "[ ", "{", '{"', '["']), st.lists(_TOK, min_size=1, max_size=5),
                                       st.sampled_from(["]", " ]", "}", '"}', '"]']), st.sampled_from(["", " q", " staple"])))


def gen_wallet(tier):
    ent = st.sampled_from([16, 20, 24, 28, 32]).flatmap(lambda n: st.binary(min_size=n, max_size=n))
    return st.fixed_dictionaries({
        "source": st.sampled_from(["mnemonic", "mnemonic", "seed", "seed-hex", "xprv", "xprv"]),
        "xver": st.sampled_from([44, 44, 49, 84]),
        "entropy": ent, "pw": st.one_of(st.just(""), S.unicode_text(8), JSONISH), "seed": S.seeds(16, 64),
        "testnet": st.booleans(),
        "calls": st.lists(st.tuples(accounts(), intervals()), min_size=1, max_size=3),
        "same_account": st.booleans(),
    })


def enum_long(tier):
    """Records with more rows than any small fixed-size structure holds."""
    cfgs = [(0, [0, 258], False, "seed"), (1, [5, 305], True, "mnemonic"), (2, [300, 1340], False, "seed")]
    if tier != "quick":
        cfgs += [(44, [0, 300], False, "xprv"), (0, [1000, 1260], True, "seed"), (H - 1, [0, 257], False, "mnemonic"), (3, [255, 515], True, "xprv")]
    for j, (acct, iv, testnet, src) in enumerate(cfgs):
        yield {"source": src, "xver": 44, "entropy": bytes([j + 1]) * 16, "pw": "", "seed": bytes([j + 7]) * 32, "testnet": testnet,
               "calls": [(acct, iv), (acct, [0, 2])], "same_account": True}
    # one long-lived wallet asked for many different accounts (more than any small table holds), then again for early ones
    many = 30 if tier == "quick" else 90
    for j, first in enumerate((0, 5)):
        accts = list(range(first, first + many))
        yield {"source": "seed", "xver": 44, "entropy": bytes([9]) * 16, "pw": "", "seed": bytes([40 + j]) * 32, "testnet": bool(j),
               "calls": [(a_, [0, 0]) for a_ in accts] + [(accts[0], [0, 2]), (accts[1], [3, 4]), (accts[-1], [0, 1])], "same_account": False}


def build(case):
    PW = _impl()
    src, testnet = case["source"], case["testnet"]
    if src == "mnemonic":
        m = R39.encode(case["entropy"])
        seed = R39.seed(m, case["pw"])
        rm = R.master(seed)
        return rm, PW.from_mnemonic(m, case["pw"], testnet), (m, case["pw"])
    rm = R.master(case["seed"])
    if src == "seed":
        return rm, PW.from_bip39_seed_bytes(case["seed"], testnet), (None, None)
    if src == "seed-hex":
        # the same 16..64-byte seed written as hex text (lower / upper case)
        text = case["seed"].hex().upper() if case["seed"][0] & 1 else case["seed"].hex()
        return rm, (PW.from_bip39_seed_hex(text, testnet) if case["seed"][-1] & 1 else PW.from_bip39_seed_hex(bip39_seed=text, testnet=testnet)), (None, None)
    return rm, PW.from_extended_key(rm.xprv(R.VERSION_OF[("prv", testnet, case.get("xver", 44))])), (None, None)


def expected_address(kind, pt, testnet):
    sec = secp.ser_c(pt)
    h = hashes.hash160(sec)
    net = "test" if testnet else "main"
    if kind == "p2pkh":
        return ("p2pkh", net, 0x6F if testnet else 0x00, h)
    if kind == "p2wpkh":
        return ("segwit", net, 0, h)
    return ("p2sh", net, 0xC4 if testnet else 0x05, hashes.hash160(b"\x00\x14" + h))


def judge_record(data, rm, testnet, account, interval, master_echo, what):
    if not isinstance(data, dict) or not {"MASTER", "BIP85", "BIP44", "BIP49", "BIP84"} <= set(data):
        raise Violation("C06/record/sections", "%s: sections %r" % (what, sorted(data) if isinstance(data, dict) else data))
    if data["MASTER"] != {"mnemonic": master_echo[0], "password": master_echo[1]}:
        raise Violation("C06/master/echo", "%s: MASTER block %r, expected mnemonic/passphrase %r" % (what, data["MASTER"], master_echo))
    coin = 1 if testnet else 0
    s, e = interval
    want_rows = max(0, e - s)
    for sec_name, (purpose, akind) in PURPOSES.items():
        blk = data[sec_name]
        acct_path = [purpose + H, coin + H, account + H]
        racct = R.derive(rm, acct_path)
        keys = blk["account_extended_keys"]
        w2 = "%s %s" % (what, sec_name)
        if keys.get("path") != R.fmt_path(acct_path):
            raise Violation("C06/account/path", "%s: account path %r, expected %s" % (w2, keys.get("path"), R.fmt_path(acct_path)))
        for typ, private in (("pub", False), ("prv", True)):
            want_v = R.VERSION_OF[(typ, testnet, purpose)]
            want = b58.encode_check(racct.payload(want_v, private))
            if keys.get(typ) != want:
                c = C.classify(keys.get(typ))
                raise Violation("C06/account/%s-key" % typ, "%s: %s = %r (decodes as %s/%s purpose %s), expected %s"
                                % (w2, typ, keys.get(typ), c.get("kind"), c.get("net"), c.get("purpose"), want))
        rows = blk["groups"]
        if len(rows) != want_rows:
            raise Violation("C06/rows/count", "%s: %d rows for interval [%d, %d), expected %d" % (w2, len(rows), s, e, want_rows))
        rchain = R.ckd_priv(racct, 0)
        for j, row in enumerate(rows):
            idx = s + j
            rnode = R.ckd_priv(rchain, idx)
            want_path = R.fmt_path(acct_path + [0, idx])
            if not isinstance(row, (list, tuple)) or len(row) != 4:
                raise Violation("C06/rows/shape", "%s row %d: %r" % (w2, j, row))
            path, addr, sechex, wif = row
            if path != want_path:
                raise Violation("C06/rows/path", "%s row %d has path %r, expected %s" % (w2, j, path, want_path))
            cw = C.classify(wif)
            if cw["kind"] != "wif" or cw["k"] != rnode.k or not cw["compressed"] or cw["net"] != ("test" if testnet else "main"):
                raise Violation("C06/rows/wif", "%s row %d (%s): WIF %r decodes to %r, expected key %#x compressed on %snet"
                                % (w2, j, want_path, wif, {k: v for k, v in cw.items() if k != "node"}, rnode.k,
                                   "test" if testnet else "main"))
            if sechex != rnode.sec().hex():
                raise Violation("C06/rows/sec", "%s row %d: SEC %r, expected %s" % (w2, j, sechex, rnode.sec().hex()))
            ca = C.classify(addr)
            kind, net, ver, h = expected_address(akind, rnode.pt, testnet)
            ok = ca["kind"] == kind and ca["net"] == net and (
                (kind == "segwit" and ca["witver"] == 0 and ca["program"] == h) or
                (kind != "segwit" and ca["version"] == ver and ca["hash"] == h))
            if not ok:
                raise Violation("C06/rows/address", "%s row %d (%s): address %r is not the %s address of the row's key on %snet"
                                % (w2, j, want_path, addr, akind, net))


def check_wallet(case, ctx):
    try:
        rm, w, echo = build(case)
    except R.Invalid:
        return
    testnet = case["testnet"]
    calls = [list(c) for c in case["calls"]]
    if case["same_account"]:
        calls = [[calls[0][0], c[1]] for c in calls]
    first = None
    records = []
    for n, (account, interval) in enumerate(calls):
        interval = [int(interval[0]), int(interval[1])]
        what = "generate(account=%d, interval=%r) call #%d on one %s wallet (testnet=%s)" % (account, interval, n + 1, case["source"], testnet)
        if case["same_account"] and n >= 1:
            # paging with ONE list object whose bounds are changed in place between the calls
            if n == 1:
                page = list(calls[0][1])
                call(w.generate, account, page)
            page[0], page[1] = interval[0], interval[1]
            st_, data = call(w.generate, account, page)
        elif n % 2:
            st_, data = call(w.generate, account=account, interval=list(interval))    # as __main__ calls it
        else:
            st_, data = call(w.generate, account, tuple(interval))
        if st_ == "exc":
            raise Violation("C06/generate/raised", "%s raised %r" % (what, data))
        judge_record(data, rm, testnet, account, interval, echo, what)
        records.append(data)
        if first is None:
            first = (data, account, interval, what)
        elif n == len(calls) - 1:
            judge_record(first[0], rm, testnet, first[1], first[2], echo, first[3] + " re-read after %d later call(s)" % n)
        # JSON rendering parses back to the same data
        for indent in (None, 4):
            st_, js = call(w.json, data, indent)
            if st_ == "exc":
                raise Violation("C06/json/raised", "%s json() raised %r" % (what, js))
            if json.loads(js) != json.loads(json.dumps(data)):
                raise Violation("C06/json/roundtrip", "%s: json.loads(w.json(d)) != d" % what)
    # file exports into ONE path, longest record first: each file must parse back to exactly what was exported
    import os, shutil, tempfile
    tmpd = tempfile.mkdtemp(prefix="c06-")
    try:
        fp = os.path.join(tmpd, "wallet.json")
        exports = sorted(records, key=lambda d_: -len(json.dumps(d_)))
        n_fp = 0
        for d_ in exports:
            st_, e = call(w.export_wallet, fp, 4, d_) if len(exports) % 2 else call(w.export_wallet, file_path=fp, data=d_)
            if st_ == "exc" and isinstance(e, FileExistsError) and os.path.exists(fp):
                # an implementation may refuse to write over an existing file: each record then goes to its own new path
                ctx.count("export-refuses-to-overwrite (not judged)")
                n_fp += 1
                fp = os.path.join(tmpd, "wallet-%d.json" % n_fp)
                st_, e = call(w.export_wallet, fp, 4, d_)
            if st_ == "exc":
                raise Violation("C06/export/raised", "export_wallet raised %r" % (e,))
            with open(fp) as f:
                text = f.read()
            try:
                back = json.loads(text)
            except ValueError as e:
                raise Violation("C06/export/not-json", "file written by export_wallet over an earlier, longer export does not "
                                "parse: %r (%d characters)" % (e, len(text)))
            if back != json.loads(json.dumps(d_)):
                raise Violation("C06/export/roundtrip", "export_wallet file differs from the exported record")
        st_, e = call(w.export_wasabi, fp)
        if st_ == "exc" and isinstance(e, FileExistsError) and os.path.exists(fp):
            ctx.count("export-refuses-to-overwrite (not judged)")
            fp = os.path.join(tmpd, "wasabi.json")
            st_, e = call(w.export_wasabi, fp)
        if st_ == "exc":
            raise Violation("C06/export/raised", "export_wasabi raised %r" % (e,))
        with open(fp) as f:
            text = f.read()
        try:
            if json.loads(text) != json.loads(w.wasabi_json()):
                raise Violation("C06/export/wasabi-roundtrip", "export_wasabi file differs from wasabi_json()")
        except ValueError as e:
            raise Violation("C06/export/not-json", "export_wasabi over an earlier export does not parse: %r" % (e,))
    finally:
        shutil.rmtree(tmpd, ignore_errors=True)
    # the caller owns the record it was handed: after it empties / rewrites that record in place (and filters it the way
    # the CLI does), the same request on the same wallet must still produce the complete, correct record
    if records:
        data0, (account0, interval0) = records[0], calls[0]
        interval0 = [int(interval0[0]), int(interval0[1])]
        try:
            import btc_hd_wallet.__main__ as M_
            call(M_.paranoia_mode, data0)
        except Exception:  # noqa: BLE001
            pass
        for sec_name in ("BIP44", "BIP49", "BIP84"):
            blk = data0.get(sec_name) if isinstance(data0, dict) else None
            if isinstance(blk, dict):
                if isinstance(blk.get("groups"), list):
                    del blk["groups"][:]
                if isinstance(blk.get("account_extended_keys"), dict):
                    blk["account_extended_keys"]["pub"] = "edited"
        if isinstance(data0, dict):
            data0.pop("MASTER", None)
            data0.pop("BIP85", None)
        st_, again = call(w.generate, account0, tuple(interval0))
        if st_ == "exc":
            raise Violation("C06/generate/raised", "generate() repeated after the caller edited the earlier record raised %r" % (again,))
        judge_record(again, rm, testnet, account0, interval0, echo, "generate(account=%d, interval=%r) repeated after the caller "
                     "edited the record returned by the first call in place" % (account0, interval0))
    # Wasabi export
    st_, wj = call(w.wasabi_json)
    if st_ == "exc":
        raise Violation("C06/wasabi/raised", "wasabi_json() raised %r" % (wj,))
    wd = json.loads(wj)
    racct = R.derive(rm, [84 + H, H, H])
    cx = C.classify(wd.get("ExtPubKey"))
    if cx["kind"] != "xpub" or cx["node"].pt != racct.pt or cx["node"].c != racct.c or cx["node"].depth != 3 \
            or cx["node"].index != H or cx["node"].pfp != racct.pfp:
        raise Violation("C06/wasabi/extpubkey", "Wasabi ExtPubKey %r is not the extended public key at m/84'/0'/0'" % (wd.get("ExtPubKey"),))
    fp = wd.get("MasterFingerprint")
    want_fp = rm.fingerprint().hex()
    if not isinstance(fp, str) or fp.lower() != want_fp:
        raise Violation("C06/wasabi/fingerprint", "Wasabi MasterFingerprint %r, master key fingerprint is %s" % (fp, want_fp.upper()))


def nt_wallet(case):
    a, iv = case["calls"][0]
    return case["testnet"] or a != 0 or iv[0] > 0 or (iv[1] - iv[0]) in (0, 1) or iv[1] < iv[0] or len(case["calls"]) > 1


def classes_wallet(case):
    a, iv = case["calls"][0]
    rows = max(0, iv[1] - iv[0])
    return ["src:" + case["source"] + (":%d" % case.get("xver", 44) if case["source"] == "xprv" else ""), "test" if case["testnet"] else "main", "rows=%d" % rows, "calls=%d" % len(case["calls"]),
            "account-edge" if a in (0, 1, H - 1, H - 2) else "account=purpose-number" if a in (44, 49, 84) else "account-uniform", "start-edge" if iv[0] in (0, 1, H - 2, H - 4) else "start-uniform"]


def key_wallet(case):
    return [case["source"], case["entropy"], case["seed"], case["pw"], case["testnet"], case["calls"]]


# ------------------------------------------------------------------------------------ rendering in an ASCII-only locale
_ASCII_CHILD = r"""
import json, sys
spec = json.loads(sys.stdin.readline())
sys.path.insert(0, spec["repo"])
from btc_hd_wallet.paper_wallet import PaperWallet
w = PaperWallet.from_mnemonic(spec["mnemonic"], spec["pw"], spec["testnet"])
data = w.generate(spec["account"], (0, 1))
w.pprint(data)
w.export_wallet(spec["file"], 4, data)
"""


def check_ascii_locale(case, ctx):
    """The JSON rendering reaches a terminal / file whose encoding is plain ASCII (LANG=C, no UTF-8 mode): the wallet with a
    non-ASCII passphrase must still be printed and saved, and both must parse back to the generated data."""
    import os, shutil, subprocess, sys, tempfile
    from vlib.engine import repo_dir
    PW = _impl()
    m = R39.encode(case["entropy"])
    try:
        R.master(R39.seed(m, case["pw"]))
    except R.Invalid:
        return
    want = json.loads(json.dumps(PW.from_mnemonic(m, case["pw"], case["testnet"]).generate(case["account"], (0, 1))))
    tmpd = tempfile.mkdtemp(prefix="c06a-")
    try:
        fp = os.path.join(tmpd, "w.json")
        env = {k: v for k, v in os.environ.items() if not k.startswith(("LC_", "PYTHON")) and k != "LANG"}
        env.update(LC_ALL="C", LANG="C", PYTHONUTF8="0", PYTHONCOERCECLOCALE="0", PYTHONDONTWRITEBYTECODE="1", PYTHONHASHSEED="0")
        spec = {"repo": repo_dir(), "mnemonic": m, "pw": case["pw"], "testnet": case["testnet"], "account": case["account"], "file": fp}
        r = subprocess.run([sys.executable, "-c", _ASCII_CHILD], input=(json.dumps(spec) + "\n").encode("ascii"), capture_output=True,
                           env=env, cwd=tmpd, timeout=300)
        what = "PaperWallet with passphrase %r rendered in an ASCII-only locale (LANG=C, UTF-8 mode off)" % case["pw"]
        if r.returncode != 0:
            raise Violation("C06/ascii-locale/raised", "%s: pprint()/export_wallet() failed: %s" % (what, r.stderr.decode("ascii", "replace")[-300:]))
        for where, raw in (("pprint() stdout", r.stdout), ("export_wallet() file", open(fp, "rb").read())):
            try:
                got = json.loads(raw.decode("utf-8"))
            except ValueError as e:
                raise Violation("C06/ascii-locale/not-json", "%s: %s does not parse: %r" % (what, where, e))
            if got != want:
                raise Violation("C06/ascii-locale/roundtrip", "%s: %s parses to other data than generate() returned (MASTER %r)"
                                % (what, where, got.get("MASTER") if isinstance(got, dict) else got))
    finally:
        shutil.rmtree(tmpd, ignore_errors=True)


def clauses():
    return [
        Clause("records", check_wallet,
               "1..3 generate(account, interval) calls on one wallet object (optionally all for the same account), each "
               "record judged completely: account path/coin type, SLIP-132 account keys equal to the reference depth-3 "
               "node, row count and order, per row path, WIF (scalar, network, compression), SEC, address kind; MASTER "
               "echo; JSON round trip; Wasabi ExtPubKey at m/84'/0'/0' and 8-digit master fingerprint; non-trivial = "
               "testnet, account != 0, start > 0, 0/1 rows, e < s, or more than one call",
               gen=gen_wallet, nontrivial=nt_wallet, classes=classes_wallet, key=key_wallet,
               enum=enum_long, enum_desc="long records: 258..1040 rows per section (quick 3, thorough 7 wallets), also "
                                         "followed by a short record on the same wallet; 30 (90) different accounts on one wallet, "
                                         "then the first ones again",
               n={"quick": 480, "thorough": 8000}, shards={"quick": 16, "thorough": 16}),
        Clause("ascii-locale", check_ascii_locale,
               "one interpreter per case started with LANG=C, PYTHONUTF8=0, PYTHONCOERCECLOCALE=0 (stdout and files are plain "
               "ASCII): a wallet whose passphrase holds non-ASCII text is printed with pprint() and saved with "
               "export_wallet(); both must succeed and parse back to the data generate() returned",
               gen=lambda tier: st.fixed_dictionaries({
                   "entropy": st.sampled_from([16, 32]).flatmap(lambda n: st.binary(min_size=n, max_size=n)),
                   "pw": st.one_of(st.text(alphabet="\u00e9\u0416\u4e2d\U0001f511 a\u212b", min_size=1, max_size=6), S.unicode_text(6).filter(lambda t: t and not t.isascii())),
                   "testnet": st.booleans(), "account": st.sampled_from([0, 1, 7])}),
               nontrivial=lambda c: True, n={"quick": 24, "thorough": 400}, shards={"quick": 12, "thorough": 16}),
    ]
