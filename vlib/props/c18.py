"""C18 — Invalid children are reported, never returned."""
from hypothesis import strategies as st

from vlib import patch
from vlib import strategies as S
from vlib.engine import Clause, Violation
from vlib.ref import bip32 as R
from vlib.ref import bip85 as R85
from vlib.util import call
from vlib.props.c01 import parents, ref_parent, compare_node, versions
from vlib.props.c02 import compare_pub

PROPERTY_ID = "C18"
OPTIMIZED = ['ckd', 'master', 'bip85', 'sequence', 'bip85-path', 'bulk']   # clauses run a second time under `python -O` (assert statements stripped)
RULE = ("the PRF (bip32.hmac_sha512 / bip85.hmac_sha512) is replaced for one case by a scripted chosen-output "
        "function; outputs sit at the corners BIP32 declares invalid (IL >= n, k_i = 0, K_i = infinity) and at "
        "their valid neighbours as controls; the oracle is BIP32's validity predicate evaluated by the reference")
ASSUMPTIONS = ["'reported' means any Exception; the type is not pinned",
               "IL = 0 on the public side (refused by the implementation, allowed by BIP32) is not judged"]
N, H = S.N, S.H
BIG = 2 ** 256


def _impl():
    from btc_hd_wallet.bip32 import PrvKeyNode, PubKeyNode
    from btc_hd_wallet.bip85 import BIP85DeterministicEntropy
    return PrvKeyNode, PubKeyNode, BIP85DeterministicEntropy


def il_for(kind, k, u):
    """kind -> IL value relative to parent scalar k; u = generated uniform filler."""
    return {
        "n": N, "n+1": N + 1, "max": BIG - 1, "ge-n-uniform": N + u % (BIG - N),
        "n-k": (N - k) % N if k else 0,          # child key zero / K_i at infinity
        "n-1": N - 1, "n-k-1": (N - k - 1) % N, "n-k+1": (N - k + 1) % N, "one": 1, "uniform": u % N,
    }[kind]


INVALID_KINDS = ["n", "n+1", "max", "ge-n-uniform", "n-k"]
CONTROL_KINDS = ["n-1", "n-k-1", "n-k+1", "one", "uniform"]


def gen_ckd(tier):
    return st.fixed_dictionaries({
        "parent": parents(), "i": S.indexes(), "side": st.sampled_from(["prv", "prv", "pub"]),
        "kind": st.sampled_from(INVALID_KINDS + INVALID_KINDS + CONTROL_KINDS),
        "u": st.integers(0, BIG - 1), "ir": S.chain_codes(),
        "form": st.sampled_from(["key32", "key33", "parsed"]),
    })


def enum_ckd(tier):
    ks = [1, 2, N - 1, N - 2, 1 << 255, 0xDEADBEEF, (N - 1) // 2]
    for k in ks:
        for kind in INVALID_KINDS + CONTROL_KINDS:
            for side, i in (("prv", 0), ("prv", H), ("prv", 2 ** 32 - 1), ("pub", 0), ("pub", H - 1)):
                yield {"parent": {"k": k, "c": b"\x07" * 32, "depth": 0, "index": 0, "pfp": b"\x00" * 4,
                                  "testnet": False}, "i": i, "side": side, "kind": kind, "u": 12345 + k,
                       "ir": b"\x01" * 32, "form": "key32"}


def check_ckd(case, ctx):
    Prv, Pub, _ = _impl()
    p, i = dict(case["parent"], c=S.case_salt(case)), case["i"]
    side = case["side"]
    if side == "pub" and i >= H:
        i -= H
    il = il_for(case["kind"], p["k"], case["u"])
    out = il.to_bytes(32, "big") + case["ir"]
    rp = ref_parent(p)
    stub_ref = lambda key, msg: out  # noqa: E731
    try:
        rc = R.ckd_priv(rp, i, prf=stub_ref) if side == "prv" else R.ckd_pub(rp.neuter(), i, prf=stub_ref)
        valid = True
    except R.Invalid:
        valid = False
    kw = dict(chain_code=p["c"], index=p["index"], depth=p["depth"], testnet=p["testnet"],
              parent_fingerprint=p["pfp"])
    k32 = p["k"].to_bytes(32, "big")
    if side == "prv":
        if case["form"] == "key32":
            node = Prv(key=k32, **kw)
        elif case["form"] == "key33":
            node = Prv(key=b"\x00" + k32, **kw)
        else:
            node = Prv.parse(rp.xprv(versions(p["testnet"])[0]), testnet=p["testnet"])
    else:
        node = Pub(key=rp.sec(), **kw) if case["form"] != "parsed" else \
            Pub.parse(rp.xpub(versions(p["testnet"])[1]), testnet=p["testnet"])
    if side == "pub" and p["k"] % 3:
        # the parent with the NEGATED public key (same x, other parity) is used first in this process
        neg = R.Node.from_priv(N - p["k"], p["c"], p["depth"], p["index"], p["pfp"])
        tw = Pub(key=neg.sec(), **kw)
        call(tw.ckd, 0)
        call(lambda: tw.public_key.sec())
        ctx.count("negated-parent-used-first")
    stub = patch.ScriptedPRF({j: out for j in range(6)})
    with patch.prf(stub):
        st_, child = call(node.ckd, i)
        if st_ == "exc" and not valid:
            # the same invalid request again on the same parent, through each entry point
            for again, f in (("ckd", lambda: node.ckd(i)), ("derive_path", lambda: node.derive_path([i])),
                             ("generate_children", lambda: node.generate_children((i, i + 1)))):
                st2, c2 = call(f)
                if st2 == "ok" and c2 != []:
                    raise Violation("C18/%s-ckd/invalid-child-returned-on-retry" % side, "the invalid child %d (IL=%#x) was "
                                    "refused once and then returned by a second %s on the same parent" % (i, il, again))
    what = "%s ckd(%d), parent k=%#x, PRF output IL=%#x (%s)" % (side, i, p["k"], il, case["kind"])
    if not stub.calls:
        ctx.count("prf-substitution-not-effective: not judged")
        return
    if not valid:
        ctx.count("invalid-output")
        if st_ == "ok":
            raise Violation("C18/%s-ckd/invalid-child-returned[%s]" % (side, "IL>=n" if il >= N else "zero-or-infinity"),
                            "%s returned a node with key %s instead of failing"
                            % (what, bytes(getattr(child, "key", b"")).hex()))
        if getattr(node, "children", None):
            ctx.count("raised-but-child-left-in-children (not judged)")
        return
    ctx.count("valid-control")
    if side == "pub" and il == 0:
        ctx.count("il-zero-public-not-judged")
        return
    if st_ == "exc":
        raise Violation("C18/%s-ckd/valid-child-refused" % side, "%s raised %r although BIP32 calls the child valid" % (what, child))
    if side == "prv":
        compare_node("C18/prv-ckd/control", what, child, rc, p["testnet"])
    else:
        compare_pub("C18/pub-ckd/control", what, child, rc, p["testnet"])


def nt_all(case):
    return True


# ----------------------------------------------------------------------------------- master key
MASTER_KINDS = {"zero": 0, "n": N, "n+1": N + 1, "max": BIG - 1, "one": 1, "n-1": N - 1}


def gen_master(tier):
    return st.fixed_dictionaries({"seed": S.seeds(1, 64), "kind": st.sampled_from(sorted(MASTER_KINDS) + ["ge-n", "lt-n"]),
                                  "u": st.integers(0, BIG - 1), "ir": S.chain_codes(), "testnet": st.booleans(),
                                  "via": st.sampled_from(["master_key", "from_bip39_seed_bytes", "from_bip39_seed_hex"])})


def check_master(case, ctx):
    Prv, _, _ = _impl()
    from btc_hd_wallet.base_wallet import BaseWallet
    kind = case["kind"]
    il = MASTER_KINDS.get(kind)
    if il is None:
        il = N + case["u"] % (BIG - N) if kind == "ge-n" else 1 + case["u"] % (N - 1)
    out = il.to_bytes(32, "big") + case["ir"]
    stub = patch.ScriptedPRF({0: out})
    seed = case["seed"] + S.case_salt(case, 8)     # unique PRF input per case
    case = dict(case, seed=seed)
    with patch.prf(stub):
        if case["via"] == "master_key":
            st_, node = call(Prv.master_key, bip39_seed=case["seed"], testnet=case["testnet"]) if case["testnet"] else \
                call(Prv.master_key, case["seed"])
        elif case["via"] == "from_bip39_seed_bytes":
            st_, node = call(lambda: BaseWallet.from_bip39_seed_bytes(case["seed"], case["testnet"]).master)
        else:
            st_, node = call(lambda: BaseWallet.from_bip39_seed_hex(case["seed"].hex(), case["testnet"]).master)
    what = "%s with PRF output IL=%#x" % (case["via"], il)
    if not stub.calls:
        ctx.count("prf-substitution-not-effective: not judged")
        return
    if il == 0 or il >= N:
        if st_ == "ok":
            raise Violation("C18/master/invalid-master-returned", "%s returned a node with key %s"
                            % (what, bytes(getattr(node, "key", b"")).hex()))
        return
    if st_ == "exc":
        raise Violation("C18/master/valid-master-refused", "%s raised %r" % (what, node))
    if any(c != (b"Bitcoin seed", case["seed"]) for c in stub.calls):
        raise Violation("C18/master/hmac-arguments", "%s: PRF called with %r" % (what, stub.calls[:2]))
    compare_node("C18/master/control", what, node, R.Node.from_priv(il, case["ir"]), case["testnet"])


# ----------------------------------------------------------------------------------- BIP85
def gen_bip85(tier):
    return st.fixed_dictionaries({
        "k": S.scalars(), "c": S.chain_codes(), "index": st.one_of(st.sampled_from([0, 1, H - 1]), st.integers(0, H - 1)),
        "app": st.sampled_from(["wif", "xprv"]),
        "kind": st.sampled_from(["zero", "n", "n+1", "max", "ge-n", "one", "n-1", "lt-n"]),
        "u": st.integers(0, BIG - 1), "other": st.binary(min_size=32, max_size=32),
        "other_bad": st.booleans(),
    })


def check_bip85(case, ctx):
    Prv, _, B85 = _impl()
    kind = case["kind"]
    sec = {"zero": 0, "n": N, "n+1": N + 1, "max": BIG - 1, "one": 1, "n-1": N - 1}.get(kind)
    if sec is None:
        sec = N + case["u"] % (BIG - N) if kind == "ge-n" else 1 + case["u"] % (N - 1)
    other = case["other"]
    if case["other_bad"]:
        other = b"\xff" * 32   # the half that is NOT the secret may hold anything (>= n as an integer)
    secb = sec.to_bytes(32, "big")
    out = secb + other if case["app"] == "wif" else other + secb
    case = dict(case, c=S.case_salt(case))       # unique entropy-PRF input per case
    master = Prv(key=case["k"].to_bytes(32, "big"), chain_code=case["c"])
    b = B85(master_node=master)
    stub = patch.ScriptedPRF({j: out for j in range(6)})
    with patch.prf(stub, modules=("btc_hd_wallet.bip85",)):
        st_, val = call(getattr(b, case["app"]), case["index"])
        if st_ == "exc" and (sec == 0 or sec >= N):
            st2, v2 = call(getattr(b, case["app"]), case["index"])      # asked again on the same object
            if st2 == "ok":
                raise Violation("C18/bip85/invalid-secret-emitted-on-retry[%s]" % case["app"], "bip85.%s(%d) refused the "
                                "invalid secret %#x once and returned %r when asked again" % (case["app"], case["index"], sec, v2))
    what = "bip85.%s(%d) with chosen entropy whose secret half is %#x" % (case["app"], case["index"], sec)
    if not stub.calls:
        ctx.count("prf-substitution-not-effective: not judged")
        return
    if sec == 0 or sec >= N:
        if st_ == "ok":
            raise Violation("C18/bip85/invalid-secret-emitted[%s]" % case["app"], "%s returned %r" % (what, val))
        return
    if st_ == "exc":
        raise Violation("C18/bip85/valid-secret-refused[%s]" % case["app"], "%s raised %r" % (what, val))
    rm = R.Node.from_priv(case["k"], case["c"])
    f = R85.wif if case["app"] == "wif" else R85.xprv
    want = f(rm, case["index"], prf=lambda key, msg: out)
    if val != want:
        raise Violation("C18/bip85/control-differs[%s]" % case["app"], "%s = %r, expected %r" % (what, val, want))
    if any(c[0] != b"bip-entropy-from-k" for c in stub.calls):
        raise Violation("C18/bip85/hmac-arguments", "%s: entropy PRF calls %r" % (what, [c[0] for c in stub.calls]))


# ----------------------------------------------------------------------------------- invalid child inside a BIP85 request
B85_PARAMS = {"mnemonic": [12, 15, 18, 21, 24], "wif": [None], "xprv": [None], "hex": [16, 32, 64], "pwd": [20, 21, 86]}


def gen_bip85_path(tier):
    return st.fixed_dictionaries({
        "k": S.scalars(), "c": S.chain_codes(), "index": st.one_of(st.sampled_from([0, 1, 7, H - 1]), st.integers(0, H - 1)),
        "app": st.sampled_from(sorted(B85_PARAMS)), "p": st.integers(0, 10), "at": st.integers(0, 4),
        "kind": st.sampled_from(["n", "max", "ge-n-uniform", "n-k", "n-k", "uniform"]), "u": st.integers(0, BIG - 1),
    })


def b85_path(app, param, index):
    return {"mnemonic": lambda: R85.path_mnemonic(param, index), "wif": lambda: R85.path_wif(index),
            "xprv": lambda: R85.path_xprv(index), "hex": lambda: R85.path_hex(param, index),
            "pwd": lambda: R85.path_pwd(param, index)}[app]()


def b85_call(b, app, param, index):
    if app == "mnemonic":
        return b.bip39_mnemonic(word_count=param, index=index)
    if app == "hex":
        return b.hex(num_bytes=param, index=index)
    if app == "pwd":
        return b.pwd(pwd_len=param, index=index)
    return getattr(b, app)(index=index)


def check_bip85_path(case, ctx, sig="C18/bip85-path"):
    """The BIP32 derivation INSIDE a BIP85 request meets an invalid child at a generated level of the application's
    path (the PRF substitute is a function of its arguments: only the CKD message of that level is answered with the
    chosen output).  The request must fail; the neighbouring index must still be served correctly afterwards."""
    Prv, _, B85 = _impl()
    app = case["app"]
    param = B85_PARAMS[app][case["p"] % len(B85_PARAMS[app])]
    index = case["index"]
    case = dict(case, c=S.case_salt(case))
    rm = R.Node.from_priv(case["k"], case["c"])
    path = b85_path(app, param, index)
    at = case["at"] % len(path)
    try:
        par = R.derive(rm, path[:at])
    except R.Invalid:
        return
    il = il_for(case["kind"], par.k, case["u"])
    out = il.to_bytes(32, "big") + b"\x22" * 32
    trigger = (par.c, b"\x00" + par.k.to_bytes(32, "big") + path[at].to_bytes(4, "big"))
    hits = []

    def stub(key, msg):
        if (bytes(key), bytes(msg)) == trigger:
            hits.append(1)
            return out
        return patch.real_prf(key, msg)
    invalid = il >= N or (il + par.k) % N == 0
    b = B85(master_node=Prv(key=case["k"].to_bytes(32, "big"), chain_code=case["c"]))
    with patch.prf(stub):
        st_, val = call(b85_call, b, app, param, index)
        st2, val2 = call(b85_call, b, app, param, index) if (invalid and st_ == "exc") else ("exc", None)
    what = "bip85 %s(param=%r, index=%d): the child at level %d of %s is %s (IL=%#x)" % (
        app, param, index, at + 1, R.fmt_path(path), "invalid" if invalid else "valid", il)
    if not hits:
        ctx.count("prf-substitution-not-effective: not judged")
        ctx.nontrivial = False
        return
    if invalid:
        ctx.count("invalid-level-%d" % (at + 1))
        if st_ == "ok":
            raise Violation(sig + "/value-returned-despite-invalid-child[%s]" % ("IL>=n" if il >= N else "zero-key"),
                            "%s, yet the request returned %r" % (what, val))
        if st2 == "ok":
            raise Violation(sig + "/value-returned-on-retry", "%s; refused once, then returned %r" % (what, val2))
        # the object is still usable for a neighbouring index and serves it correctly
        if index + 1 < H:
            try:
                want = {"mnemonic": lambda: R85.mnemonic(rm, param, index + 1), "wif": lambda: R85.wif(rm, index + 1),
                        "xprv": lambda: R85.xprv(rm, index + 1), "hex": lambda: R85.hex_(rm, param, index + 1),
                        "pwd": lambda: R85.pwd(rm, param, index + 1)}[app]()
            except R.Invalid:
                return
            st3, v3 = call(b85_call, b, app, param, index + 1)
            if st3 == "exc" or v3 != want:
                raise Violation(sig + "/neighbour-after-refusal", "%s; afterwards index %d gives %r, expected %r" % (what, index + 1, v3, want))
        return
    ctx.count("valid-control")
    if st_ == "exc":
        raise Violation(sig + "/valid-child-refused", "%s, yet the request raised %r" % (what, val))


# ----------------------------------------------------------------------------------- bulk children
def gen_bulk(tier):
    return st.fixed_dictionaries({
        "parent": parents(), "side": st.sampled_from(["prv", "pub", "pub"]),
        "start": st.one_of(st.sampled_from([0, 1, H - 6, H, 2 ** 32 - 6]), S.indexes()),
        "len": st.integers(2, 6), "bad": st.integers(0, 5),
        "kind": st.sampled_from(["n", "n+1", "max", "ge-n-uniform", "n-k", "uniform"]), "u": st.integers(0, BIG - 1),
    })


def check_bulk(case, ctx):
    """generate_children over an interval of 2..6 indexes one of which has an invalid PRF output (substitute keyed on
    that child's CKD message): no node for that index may come back or be recorded."""
    Prv, Pub, _ = _impl()
    p = dict(case["parent"], c=S.case_salt(case))
    side = case["side"]
    start, ln = case["start"], case["len"]
    if side == "pub":
        start %= H
        start = min(start, H - ln)
    start = min(start, 2 ** 32 - ln)
    if side == "prv" and start < H < start + ln:
        start = H - ln if case["bad"] % 2 else H          # keep one parent-key encoding per request
    bad = start + case["bad"] % ln
    rp = ref_parent(p)
    il = il_for(case["kind"], p["k"], case["u"])
    out = il.to_bytes(32, "big") + b"\x33" * 32
    ser_par = (b"\x00" + p["k"].to_bytes(32, "big")) if (side == "prv" and bad >= H) else rp.sec()
    trigger = (p["c"], ser_par + bad.to_bytes(4, "big"))
    hits = []

    def stub(key, msg):
        if (bytes(key), bytes(msg)) == trigger:
            hits.append(1)
            return out
        return patch.real_prf(key, msg)
    invalid = il >= N or (il + p["k"]) % N == 0
    kw = dict(chain_code=p["c"], index=p["index"], depth=p["depth"], testnet=p["testnet"], parent_fingerprint=p["pfp"])
    node = Prv(key=p["k"].to_bytes(32, "big"), **kw) if side == "prv" else Pub(key=rp.sec(), **kw)
    with patch.prf(stub):
        st_, kids = call(node.generate_children, (start, start + ln))
    what = "%s generate_children((%d, %d)), parent k=%#x: child %d has PRF output IL=%#x (%s)" % (
        side, start, start + ln, p["k"], bad, il, case["kind"])
    if not hits:
        ctx.count("prf-substitution-not-effective: not judged")
        ctx.nontrivial = False
        return
    if not invalid:
        ctx.count("valid-control")
        if side == "pub" and il == 0:
            return
        if st_ == "exc":
            raise Violation("C18/bulk/valid-child-refused", "%s, yet the request raised %r" % (what, kids))
        return
    ctx.count("invalid-in-interval")
    returned = [n_ for n_ in (kids if st_ == "ok" and isinstance(kids, (list, tuple)) else []) if getattr(n_, "index", None) == bad]
    recorded = [n_ for n_ in getattr(node, "children", []) if getattr(n_, "index", None) == bad]
    if returned or recorded:
        raise Violation("C18/bulk/invalid-child-%s[%s]" % ("returned" if returned else "recorded", "IL>=n" if il >= N else "zero-or-infinity"),
                        "%s, yet a node for that index (key %s) was %s" % (
                            what, bytes(getattr((returned or recorded)[0], "key", b"")).hex(),
                            "returned" if returned else "left in the parent's children"))


# ----------------------------------------------------------------------------------- invalid children requested from threads
def gen_ckd_threads(tier):
    from vlib import threads as T
    return st.fixed_dictionaries({
        "parent": parents(), "side": st.sampled_from(["pub", "pub", "prv"]), "i": S.normal_indexes(),
        "kind": st.sampled_from(["n-k", "n-k", "n", "max", "uniform"]), "u": st.integers(0, BIG - 1),
        "nthreads": st.integers(2, 3), "plan": T.plans(max_run=6)})


def check_ckd_threads(case, ctx):
    """2..3 threads request the SAME child of one shared parent at once (another key was handled earlier in the process);
    the PRF substitute makes that child invalid (or valid, as control): every thread must get the error (or the right child)."""
    from vlib import threads as T
    Prv, Pub, _ = _impl()
    p = dict(case["parent"], c=S.case_salt(case))
    side, i = case["side"], case["i"]
    il = il_for(case["kind"], p["k"], case["u"])
    out = il.to_bytes(32, "big") + b"\x44" * 32
    rp = ref_parent(p)
    kw = dict(chain_code=p["c"], index=p["index"], depth=p["depth"], testnet=p["testnet"], parent_fingerprint=p["pfp"])
    other = R.Node.from_priv(p["k"] % (N - 1) + 1, p["c"])
    call(lambda: Pub(key=other.sec(), chain_code=p["c"]).ckd(0))            # some other key first
    node = Prv(key=p["k"].to_bytes(32, "big"), **kw) if side == "prv" else Pub(key=rp.sec(), **kw)
    invalid = il >= N or (il + p["k"]) % N == 0
    try:
        rc = None if invalid else (R.ckd_priv(rp, i, prf=lambda k_, m_: out) if side == "prv" else R.ckd_pub(rp.neuter(), i, prf=lambda k_, m_: out))
    except R.Invalid:
        return
    hits = []

    def stub(key, msg):
        if bytes(key) == p["c"]:
            hits.append(1)
            return out
        return patch.real_prf(key, msg)

    def run():
        st_, ch = call(node.ckd, i)
        return (st_, ch.public_key.sec() if st_ == "ok" else repr(ch))
    with patch.prf(stub):
        results, errors = T.run_scheduled(case["plan"], [run] * case["nthreads"], T.library_files("bip32", "keys", "helper"), ctx)
    if not hits:
        ctx.count("prf-substitution-not-effective: not judged")
        ctx.nontrivial = False
        return
    if errors:
        raise Violation("C18/ckd-threads/crashed", "threads raised %r" % (errors,))
    for t in range(case["nthreads"]):
        st_, val = results[t]
        if invalid and st_ == "ok":
            raise Violation("C18/ckd-threads/invalid-child-returned", "%d threads asked one %s parent for child %d (PRF output IL=%#x, %s): "
                            "thread %d got a node with public key %s instead of an error" % (case["nthreads"], side, i, il, case["kind"], t, val.hex()))
        if not invalid and not (side == "pub" and il == 0) and (st_ == "exc" or val != rc.sec()):
            raise Violation("C18/ckd-threads/valid-child-wrong", "%d threads asked one %s parent for the valid child %d: thread %d got %r, "
                            "expected %s" % (case["nthreads"], side, i, t, val, rc.sec().hex()))


# ----------------------------------------------------------------------------------- sequences
def gen_seq(tier):
    return st.fixed_dictionaries({
        "parent": parents().map(lambda d: dict(d, depth=min(d["depth"], 240))),
        "path": st.lists(S.indexes(), min_size=1, max_size=5), "at": st.integers(0, 4),
        "kind": st.sampled_from(["n", "max", "ge-n-uniform", "n-k"]), "u": st.integers(0, BIG - 1),
        "side": st.sampled_from(["prv", "pub"]),
    })


def check_seq(case, ctx):
    """An invalid PRF output at step `at` of a multi-level derive_path: the whole call must fail."""
    Prv, Pub, _ = _impl()
    p = dict(case["parent"], c=S.case_salt(case))
    path = list(case["path"])
    side = case["side"]
    if side == "pub":
        path = [i % H for i in path]
    at = case["at"] % len(path)
    rp = ref_parent(p)
    # reference walk with the real PRF up to `at`, to know the scalar the fault is relative to
    node = rp if side == "prv" else rp.neuter()
    kcur = p["k"]
    try:
        for i in path[:at]:
            if side == "prv":
                node = R.ckd_priv(node, i)
                kcur = node.k
            else:
                I = patch.real_prf(node.c, node.sec() + i.to_bytes(4, "big"))
                kcur = (kcur + int.from_bytes(I[:32], "big")) % N   # private scalar behind the public node
                node = R.ckd_pub(node, i)
    except R.Invalid:
        return
    il = il_for(case["kind"], kcur, case["u"])
    out = il.to_bytes(32, "big") + b"\x11" * 32
    kw = dict(chain_code=p["c"], index=p["index"], depth=p["depth"], testnet=p["testnet"],
              parent_fingerprint=p["pfp"])
    root = Prv(key=p["k"].to_bytes(32, "big"), **kw) if side == "prv" else Pub(key=rp.sec(), **kw)
    stub = patch.ScriptedPRF({at: out})
    with patch.prf(stub):
        st_, val = call(root.derive_path, path)
    if len(stub.calls) <= at:
        ctx.count("prf-substitution-not-effective: not judged")
        return
    if st_ == "ok":
        raise Violation("C18/sequence/derive_path-returned", "%s derive_path(%s) returned %r although the PRF output at "
                        "level %d was invalid (%s, IL=%#x)" % (side, R.fmt_path(path), val, at + 1, case["kind"], il))
    if len(stub.calls) != at + 1:
        ctx.count("prf-calls-after-the-invalid-level (not judged)")


def clauses():
    return [
        Clause("ckd", check_ckd,
               "private and public ckd with PRF output IL in {n, n+1, 2^256-1, uniform >= n, n - k_par} (must raise, no "
               "child recorded) and controls {n-1, n-k-1, n-k+1, 1, uniform < n} (must equal the reference child), "
               "parents built three ways, indexes on both sides of 2^31; every case is a corner (non-trivial)",
               gen=gen_ckd, enum=enum_ckd, classes=lambda c: [c["side"] + ":" + c["kind"]],
               enum_desc="7 scalars x 10 PRF corners x 5 (side, index) pairs",
               n={"quick": 2500, "thorough": 100000}, shards={"quick": 16, "thorough": 16}),
        Clause("master", check_master,
               "master_key / from_bip39_seed_bytes / from_bip39_seed_hex with PRF output IL in {0, n, n+1, 2^256-1, "
               "uniform >= n} (must raise) and {1, n-1, uniform} (must return that key and chain code)",
               gen=gen_master, classes=lambda c: [c["kind"]],
               n={"quick": 1200, "thorough": 50000}, shards={"quick": 8, "thorough": 16}),
        Clause("bip85", check_bip85,
               "BIP85 wif/xprv with the entropy PRF scripted so that the secret half (first 32 bytes for WIF, last 32 "
               "for XPRV) is 0, n, n+1, 2^256-1, uniform >= n (must raise) or 1, n-1, uniform (must equal the "
               "reference); the non-secret half is arbitrary, including 0xff..ff",
               gen=gen_bip85, classes=lambda c: [c["app"] + ":" + c["kind"]],
               n={"quick": 1000, "thorough": 40000}, shards={"quick": 16, "thorough": 16}),
        Clause("bip85-path", check_bip85_path,
               "a BIP85 request (all five applications) whose inner BIP32 derivation meets IL >= n or a zero child key at a "
               "generated level 1..5 of the application path (PRF substitute keyed on that level's CKD message, real "
               "HMAC elsewhere): the request must raise, also when repeated, and index+1 must still be served "
               "correctly; valid outputs as controls",
               gen=gen_bip85_path, classes=lambda c: ["%s:%s" % (c["app"], c["kind"])],
               n={"quick": 600, "thorough": 30000}, shards={"quick": 16, "thorough": 16}),
        Clause("bulk", check_bulk,
               "generate_children over 2..6 consecutive indexes (private and public parents, starts at the interval "
               "edges) where exactly one child's PRF output is invalid (IL >= n, zero key / infinity; substitute keyed on "
               "that child's CKD message): no node for that index may be returned or recorded in the parent; valid "
               "outputs as controls",
               gen=gen_bulk, classes=lambda c: ["%s:%s" % (c["side"], c["kind"])],
               n={"quick": 800, "thorough": 30000}, shards={"quick": 16, "thorough": 16}),
        Clause("ckd-threads", check_ckd_threads,
               "2..3 threads ask one shared parent (public or private) for the same child at once under the deterministic "
               "line-granularity scheduler, after another key was handled in the process; the PRF substitute makes the child "
               "invalid (zero key / infinity, IL >= n) or valid: every thread gets the error, or the reference child",
               gen=gen_ckd_threads, classes=lambda c: ["%s:%s" % (c["side"], c["kind"])],
               n={"quick": 400, "thorough": 12000}, shards={"quick": 16, "thorough": 16}),
        Clause("sequence", check_seq,
               "multi-level derive_path (1..5 levels, private and public) where the scripted PRF returns an invalid "
               "output at a generated level and the real HMAC elsewhere: the whole call must raise and stop there",
               gen=gen_seq, classes=lambda c: ["%s:at=%d" % (c["side"], c["at"] % len(c["path"]))],
               n={"quick": 800, "thorough": 40000}, shards={"quick": 16, "thorough": 16}),
    ]
