"""C08 — New wallets draw their full entropy from the operating system's CSPRNG."""
import json
import random

from hypothesis import strategies as st

from vlib import cli
from vlib import patch
from vlib.engine import Clause, Violation
from vlib.ref import bip39 as R39
from vlib.util import call

PROPERTY_ID = "C08"
OPTIMIZED = ['history', 'os-source-unavailable', 'bit-variation', 'invalid-master-fault', 'os-bit-influence']   # clauses run a second time under `python -O` (assert statements stripped)
RULE = ("histories of up to 30 steps over {reseed(s) of the process-wide PRNG, new(api, words), reseed-pair(s, api, "
        "words)} with api in {BaseWallet.new_wallet, PaperWallet.new_wallet, BaseWallet.from_entropy_bits, "
        "mnemonic_from_entropy_bits, CLI 'new'} and words in {12,15,18,21,24}; os.urandom / random._urandom are wrapped "
        "from outside (recording, pass-through) during each creation")
ASSUMPTIONS = ["the per-bit clause establishes variation (each of the ENT positions seen as 0 and as 1 over >= 96 fresh "
               "wallets per api and length; a fair bit looks stuck with probability 2^-95, < 1e-24 over all positions), "
               "not uniformity; the quality of the OS source is out of scope",
               "this check reads OS randomness by definition; its verdict does not depend on the values read except "
               "with the negligible probabilities stated"]
WORDS = [12, 15, 18, 21, 24]
APIS = ["BaseWallet.new_wallet", "PaperWallet.new_wallet", "BaseWallet.from_entropy_bits", "mnemonic_from_entropy_bits",
        "cli-new", "cli-new-paranoia"]      # the last one prints no sentence: only the bytes requested can be judged


def ent_bits(words):
    return words * 32 // 3


def create(api, words):
    """-> (sentence, os_bytes_requested)."""
    from btc_hd_wallet.base_wallet import BaseWallet
    from btc_hd_wallet.paper_wallet import PaperWallet
    from btc_hd_wallet import bip39
    with patch.urandom_recorder() as rec:
        if api == "BaseWallet.new_wallet":
            s = BaseWallet.new_wallet(mnemonic_length=words).mnemonic
        elif api == "PaperWallet.new_wallet":
            s = PaperWallet.new_wallet(words, "pw", True).mnemonic
        elif api == "BaseWallet.from_entropy_bits":
            s = BaseWallet.from_entropy_bits(entropy_bits=ent_bits(words)).mnemonic
        elif api == "mnemonic_from_entropy_bits":
            s = bip39.mnemonic_from_entropy_bits(ent_bits(words))
        elif api == "cli-new-paranoia":
            r = cli.run_main(["--paranoia", "--interval", "0", "1", "new", "--mnemonic-len", str(words)])
            if r["status"] != 0:
                raise RuntimeError("cli --paranoia new failed: %r" % (r["err"][:200],))
            s = NO_SENTENCE
        else:
            r = cli.run_main(["--interval", "0", "0", "new", "--mnemonic-len", str(words)])
            if r["status"] != 0:
                raise RuntimeError("cli new failed: %r" % (r["err"][:200],))
            s = json.loads(r["out"])["MASTER"]["mnemonic"]
    return s, rec["bytes"]


NO_SENTENCE = "<paranoia output shows no sentence>"


def judge_one(api, words, sentence, os_bytes, where):
    ent = ent_bits(words)
    if sentence == NO_SENTENCE:
        if os_bytes * 8 < ent:
            raise Violation("C08/os-source/too-few-bits-requested", "%s %s(%d words) requested %d bytes from the OS random "
                            "source, %d bits are needed" % (where, api, words, os_bytes, ent))
        return None
    if not isinstance(sentence, str):
        raise Violation("C08/new/no-sentence", "%s %s(%d) gave %r" % (where, api, words, sentence))
    dec = R39.decode(sentence)
    if dec is None or not dec[1] or len(dec[0]) * 8 != ent:
        raise Violation("C08/new/invalid-sentence", "%s %s(%d words) produced %r" % (where, api, words, sentence))
    if os_bytes * 8 < ent:
        raise Violation("C08/os-source/too-few-bits-requested", "%s %s(%d words) requested %d bytes from the OS random "
                        "source, %d bits are needed" % (where, api, words, os_bytes, ent))
    return dec[0]


def gen_history(tier):
    seed_vals = st.one_of(st.integers(0, 2 ** 64), st.binary(max_size=8), st.text(max_size=6), st.sampled_from([0, 1, 42]))
    api = st.sampled_from(APIS[:4] + APIS[:4] + APIS[4:] + APIS[5:])
    step = st.one_of(
        st.tuples(st.just("reseed"), seed_vals, st.none(), st.none()),
        st.tuples(st.just("new"), st.none(), api, st.sampled_from(WORDS)),
        st.tuples(st.just("pair"), seed_vals, api, st.sampled_from(WORDS)),
    )
    return st.fixed_dictionaries({"steps": st.lists(step, min_size=1, max_size=30)})


def check_history(case, ctx):
    state = random.getstate()
    try:
        seen = {}
        for n, (op, s, api, words) in enumerate(case["steps"]):
            where = "step %d" % n
            if op == "reseed":
                random.seed(s)
                continue
            if op == "new":
                sent, nb = create(api, words)
                judge_one(api, words, sent, nb, where)
                sents = [sent]
            else:
                random.seed(s)
                a, nb = create(api, words)
                judge_one(api, words, a, nb, where)
                random.seed(s)
                b, nb = create(api, words)
                judge_one(api, words, b, nb, where)
                if a == b and a != NO_SENTENCE:
                    raise Violation("C08/repeat/same-wallet-after-reseed", "%s: %s(%d words) produced the same sentence "
                                    "twice after random.seed(%r): %r" % (where, api, words, s, a))
                sents = [a, b]
            for sent in sents:
                if sent == NO_SENTENCE:
                    continue
                if sent in seen:
                    raise Violation("C08/repeat/two-fresh-wallets-coincide", "%s and step %d produced the same sentence %r"
                                    % (where, seen[sent], sent))
                seen[sent] = n
    finally:
        random.setstate(state)


def nt_history(case):
    reseeded = False
    for op, s, api, words in case["steps"]:
        if op in ("reseed", "pair"):
            reseeded = True
        if op in ("new", "pair") and reseeded:
            return True
    return False


def key_history(case):
    return [[op, repr(s), api, words] for op, s, api, words in case["steps"]]


def enum_bits(tier):
    import os
    for api in (APIS[:4] if os.environ.get("VERIF_SUBRUN") == "1" else APIS[:5]):
        for words in WORDS:
            yield {"api": api, "words": words, "samples": 96 if tier == "quick" else 192}


def check_bits(case, ctx):
    api, words, n = case["api"], case["words"], case["samples"]
    if api == "cli-new":
        n = max(96, n // 2)
    ent = ent_bits(words)
    and_acc, or_acc = (1 << ent) - 1, 0
    seen = set()
    for j in range(n):
        sent, nb = create(api, words)
        e = judge_one(api, words, sent, nb, "sample %d" % j)
        v = int.from_bytes(e, "big")
        and_acc &= v
        or_acc |= v
        if sent in seen:
            raise Violation("C08/repeat/two-fresh-wallets-coincide", "%s(%d words): sample %d repeats an earlier sentence" % (api, words, j))
        seen.add(sent)
    ctx.count("__extra_evals__", n)
    ctx.count("__extra_nontrivial__", n - 1)
    stuck1 = and_acc
    stuck0 = ((1 << ent) - 1) ^ or_acc
    if stuck0 or stuck1:
        bits0 = [ent - 1 - i for i in range(ent) if (stuck0 >> (ent - 1 - i)) & 1]
        bits1 = [ent - 1 - i for i in range(ent) if (stuck1 >> (ent - 1 - i)) & 1]
        which = "most-significant-bit" if (ent - 1) in bits0 + bits1 else "other-bit"
        raise Violation("C08/bits/stuck[%s]" % which, "%s(%d words): over %d fresh wallets entropy bit(s) %r were always 0 "
                        "and %r always 1 (bit %d is the most significant)" % (api, words, n, bits0[:8], bits1[:8], ent - 1))


def check_unavailable(case, ctx):
    """Fault: the OS random source raises.  A new wallet must not be produced from any other entropy."""
    exc = {"NotImplementedError": NotImplementedError("urandom unavailable"), "OSError": OSError(5, "EIO"),
           "BlockingIOError": BlockingIOError(11, "EAGAIN")}[case["exc"]]
    state = random.getstate()
    try:
        random.seed(case["seed"])
        with patch.os_random_unavailable(exc):
            st_, res = call(create, case["api"], case["words"])
        if st_ == "ok":
            raise Violation("C08/os-source/unavailable-but-wallet-produced", "%s(%d words) returned %r although every "
                            "request to the OS random source raised %s" % (case["api"], case["words"], res[0], case["exc"]))
    finally:
        random.setstate(state)


def check_invalid_master(case, ctx):
    """Fault: the first master-key HMAC ("Bitcoin seed") of the creation yields an invalid key (IL = 0 or IL >= n).
    The creation may fail; if it hands out a wallet anyway, that wallet's entropy must still come from the OS source:
    the same creation after the same reseed of the process-wide PRNG must give another wallet."""
    import os
    il = {"zero": b"\x00" * 32, "n": (2 ** 256 - 432420386565659656852420866394968145599).to_bytes(32, "big"), "ff": b"\xff" * 32}[case["il"]]
    state = random.getstate()

    def one():
        hit = {"n": 0}

        def stub(key, msg):
            if bytes(key) == b"Bitcoin seed" and hit["n"] == 0:
                hit["n"] += 1
                return il + os.urandom(32)
            return patch.real_prf(key, msg)
        random.seed(case["seed"])
        with patch.prf(stub):
            st_, res = call(create, case["api"], case["words"])
        return st_, res, hit["n"]
    try:
        a = one()
        b = one()
    finally:
        random.setstate(state)
    if not a[2] or not b[2]:
        ctx.count("stub-not-consulted (not judged)")
        ctx.nontrivial = False
        return
    if a[0] == "exc" and b[0] == "exc":
        ctx.count("creation-failed (allowed)")
        return
    ctx.count("creation-retried")
    for st_, res, _ in (a, b):
        if st_ == "ok":
            judge_one(case["api"], case["words"], res[0], res[1], "after an invalid first master key")
    if a[0] == "ok" and b[0] == "ok" and a[1][0] == b[1][0] and a[1][0] != NO_SENTENCE:
        raise Violation("C08/repeat/same-wallet-after-reseed[invalid-master-retry]", "%s(%d words): when the first master key "
                        "is invalid (IL %s) the wallet handed out instead is %r both times after random.seed(%r)"
                        % (case["api"], case["words"], case["il"], a[1][0], case["seed"]))


def check_influence(case, ctx):
    """The OS source is scripted (a fixed stream); then each single bit of the bytes the creation consumed is inverted in
    turn.  At least ENT of those bits must change the resulting sentence: a sentence that depends on fewer OS bits than
    ENT does not carry its full entropy, however many bytes were requested."""
    api, words = case["api"], case["words"]
    ent = ent_bits(words)
    state = random.getstate()
    try:
        with patch.os_random_scripted(case["seed"]) as st0:
            st_, res = call(create, api, words)
        if st_ == "exc":
            raise Violation("C08/influence/raised", "%s(%d words) raised %r with a scripted OS source" % (api, words, res))
        base, consumed = res[0], st0["pos"]
        if consumed == 0:
            ctx.count("scripted-source-not-consulted (not judged)")
            ctx.nontrivial = False
            return
        judge_one(api, words, base, consumed, "scripted OS source")
        influential = 0
        dead = []
        for j in range(consumed * 8):
            with patch.os_random_scripted(case["seed"], flip_bit=j):
                st_, r2 = call(create, api, words)
            if st_ == "exc" or r2[0] != base:
                influential += 1
            else:
                dead.append(j)
        ctx.count("__extra_evals__", consumed * 8)
        ctx.count("__extra_nontrivial__", consumed * 8)
        if influential < ent:
            raise Violation("C08/influence/too-few-os-bits-matter", "%s(%d words): the creation consumed %d bytes from the OS source, "
                            "but inverting single bits of them changes the sentence for only %d positions (ENT = %d); e.g. bits %r "
                            "have no effect" % (api, words, consumed, influential, ent, dead[:12]))
    finally:
        random.setstate(state)


# ------------------------------------------------------------------------------------ unusual import environments
_ENV_CHILD = r"""
import json, sys, types
spec = json.loads(sys.stdin.readline())
if spec["env"] == "secrets-module-without-SystemRandom":
    sys.modules["secrets"] = types.ModuleType("secrets")          # an application module that happens to be called secrets
elif spec["env"] == "secrets-not-importable":
    sys.modules["secrets"] = None
elif spec["env"] == "forked-children":
    pass
sys.path.insert(0, spec["repo"])
import random
from btc_hd_wallet import bip39
from btc_hd_wallet.base_wallet import BaseWallet
out = []
if spec["env"] == "forked-children":
    import os
    # the package is imported, then the process forks workers (pre-fork servers, multiprocessing): each child's FIRST wallet
    for j in range(3):
        r, w = os.pipe()
        pid = os.fork()
        if pid == 0:
            os.close(r)
            os.write(w, BaseWallet.new_wallet(spec["words"]).mnemonic.encode())
            os._exit(0)
        os.close(w)
        out.append(os.read(r, 4096).decode())
        os.waitpid(pid, 0)
else:
    for j in range(2):
        random.seed(spec["seed"])
        out.append(bip39.mnemonic_from_entropy_bits(spec["words"] * 32 // 3))
    for j in range(2):
        random.seed(spec["seed"])
        out.append(BaseWallet.new_wallet(spec["words"]).mnemonic)
print(json.dumps(out))
"""


def check_import_env(case, ctx):
    """The library is imported in a process whose environment differs from the usual one (a foreign top-level module named
    `secrets`, `secrets` not importable, workers forked after the import); fresh wallets must still differ from each other."""
    import os, subprocess, sys
    from vlib.engine import repo_dir
    spec = {"repo": repo_dir(), "env": case["env"], "words": case["words"], "seed": 5}
    env = dict(os.environ, PYTHONDONTWRITEBYTECODE="1", PYTHONHASHSEED="0")
    env.pop("PYTHONPATH", None)
    r = subprocess.run([sys.executable, "-c", _ENV_CHILD], input=json.dumps(spec) + "\n", capture_output=True, text=True, env=env, timeout=300)
    if r.returncode != 0:
        ctx.count("creation-failed-in-this-environment (allowed): " + case["env"])
        return
    sents = json.loads(r.stdout.strip().splitlines()[-1])
    for s_ in sents:
        dec = R39.decode(s_)
        if dec is None or not dec[1] or len(dec[0]) * 8 != ent_bits(case["words"]):
            raise Violation("C08/new/invalid-sentence", "environment %s: produced %r" % (case["env"], s_))
    groups = [sents] if case["env"] == "forked-children" else [sents[:2], sents[2:]]
    for g_ in groups:
        if len(set(g_)) != len(g_):
            raise Violation("C08/repeat/same-wallet-in-unusual-environment[%s]" % case["env"], "%d-word wallets created %s coincide: %r"
                            % (case["words"], "by forked children right after the import" if case["env"] == "forked-children"
                               else "after identical reseeds of the process-wide PRNG", g_))


def clauses():
    return [
        Clause("history", check_history,
               "per creation: valid sentence of exactly ENT bits and >= ENT/8 bytes requested from the OS source during "
               "the call; reseed pairs (seed s, create, seed s, create) must differ; all sentences of a history pairwise "
               "distinct; non-trivial = a creation that follows a reseed in the same history; distinct by the whole "
               "(op, seed, api, words) sequence",
               gen=gen_history, nontrivial=nt_history, key=key_history,
               classes=lambda c: sorted({"%s" % (st_[2],) for st_ in c["steps"] if st_[2]} | {"len>=10" if len(c["steps"]) >= 10 else "len<10"}),
               n={"quick": 300, "thorough": 20000}, shards={"quick": 16, "thorough": 16}),
        Clause("os-source-unavailable", check_unavailable,
               "fault injection: os.urandom / getrandom / SystemRandom's source raise NotImplementedError, OSError or "
               "BlockingIOError during the creation: every api x length must fail instead of falling back to other entropy",
               enum=lambda tier: [{"api": a_, "words": w_, "exc": e_, "seed": 7} for a_ in APIS for w_ in WORDS
                                  for e_ in ("NotImplementedError", "OSError", "BlockingIOError")],
               exhaustive=True, enum_desc="5 apis x 5 lengths x 3 exception kinds", shards={"quick": 8, "thorough": 8}),
        Clause("invalid-master-fault", check_invalid_master,
               "fault injection: the first HMAC-SHA512('Bitcoin seed') of a creation returns IL = 0, n or 2^256-1 (invalid "
               "master key); the creation may fail, but a wallet handed out anyway must differ between two runs that "
               "follow the same reseed of the process-wide PRNG, and must pass the per-creation checks",
               enum=lambda tier: [{"api": a_, "words": w_, "il": i_, "seed": 11} for a_ in APIS[:3] + APIS[4:] for w_ in WORDS
                                  for i_ in ("zero", "n", "ff")],
               exhaustive=True, enum_desc="4 wallet-creating apis x 5 lengths x 3 invalid IL values", shards={"quick": 8, "thorough": 8}),
        Clause("os-bit-influence", check_influence,
               "the OS source is replaced by a fixed scripted stream and each bit of the bytes a creation consumed is inverted in "
               "turn (128..256+ re-creations per api x length): at least ENT of those bits must change the sentence - a "
               "necessary condition for 'full entropy from the OS' that counting requested bytes cannot give",
               enum=lambda tier: [{"api": a_, "words": w_, "seed": b"infl-%d" % j_} for a_ in APIS[:4] for w_ in WORDS
                                  for j_ in range(1 if tier == "quick" else 3)],
               exhaustive=True, enum_desc="4 apis x 5 lengths x 1 (quick) / 3 (thorough) scripted streams, every consumed bit",
               shards={"quick": 16, "thorough": 16}),
        Clause("import-environment", check_import_env,
               "one fresh interpreter per case: a foreign top-level module called `secrets` (without SystemRandom) is already "
               "imported, `secrets` is not importable at all, or three workers are forked right after the import; wallets "
               "created after identical reseeds / by the forked children must not coincide (a creation may fail)",
               enum=lambda tier: [{"env": e_, "words": w_} for e_ in ("secrets-module-without-SystemRandom", "secrets-not-importable", "forked-children")
                                  for w_ in ((12, 24) if tier == "quick" else WORDS)],
               exhaustive=True, enum_desc="3 environments x 2 (quick) / 5 (thorough) lengths", nontrivial=lambda c: True,
               shards={"quick": 6, "thorough": 15}),
        Clause("bit-variation", check_bits,
               "for each api x length: 96 (quick) / 192 (thorough) fresh wallets; every one of the ENT bit positions, "
               "explicitly including bit ENT-1, must be seen as 0 and as 1; no two wallets coincide",
               enum=enum_bits, exhaustive=True, enum_desc="5 apis x 5 mnemonic lengths",
               shards={"quick": 16, "thorough": 16}),
    ]
