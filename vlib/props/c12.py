"""C12 — BIP85 child secrets equal the specified derivation for every app and index."""
from hypothesis import strategies as st

from vlib import strategies as S
from vlib.engine import Clause, Violation
from vlib.ref import bip32 as R
from vlib.ref import bip85 as R85
from vlib.util import call

PROPERTY_ID = "C12"
OPTIMIZED = ['reject', 'apps', 'defaults-and-keywords']   # clauses run a second time under `python -O` (assert statements stripped)
RULE = ("masters from the scalar mixture (constructed and parsed from the reference xprv); indexes {0,1,2^31-1} and "
        "uniform; application parameters enumerated exhaustively (5 word counts, 49 byte counts, 67 password lengths); "
        "oracle = independent BIP85 on own BIP32; the index list actually derived is recorded by a subclassing wrapper")
ASSUMPTIONS = ["application parameters are ints; indexes are ints plus numbers that are not integers (floats, Decimal, Fraction), which are outside every allowed set as values",
               "BIP39 language is English (path component 0'), the only one the library offers"]
H, N = S.H, S.N
WORDS = [12, 15, 18, 21, 24]


def _impl():
    from btc_hd_wallet.bip32 import PrvKeyNode
    from btc_hd_wallet.bip85 import BIP85DeterministicEntropy
    from btc_hd_wallet.base_wallet import BaseWallet
    from btc_hd_wallet.paper_wallet import PaperWallet
    return PrvKeyNode, BIP85DeterministicEntropy, BaseWallet, PaperWallet


_REC = {}


def rec_class():
    Prv = _impl()[0]
    if "cls" not in _REC:
        class RecNode(Prv):
            __slots__ = ("log",)

            def derive_path(self, index_list):
                log = getattr(self, "log", None)
                if log is not None:
                    log.append(list(index_list))
                return Prv.derive_path(self, index_list)
        _REC["cls"] = RecNode
    return _REC["cls"]


def app_expect(rm, app, param, index):
    if app == "mnemonic":
        return R85.mnemonic(rm, param, index), R85.path_mnemonic(param, index)
    if app == "wif":
        return R85.wif(rm, index), R85.path_wif(index)
    if app == "xprv":
        return R85.xprv(rm, index), R85.path_xprv(index)
    if app == "hex":
        return R85.hex_(rm, param, index), R85.path_hex(param, index)
    if app == "pwd":
        return R85.pwd(rm, param, index), R85.path_pwd(param, index)
    raise ValueError(app)


def app_call(b, app, param, index, kwargs=True):
    if app == "mnemonic":
        return b.bip39_mnemonic(word_count=param, index=index) if kwargs else b.bip39_mnemonic(param, index)
    if app == "wif":
        return b.wif(index=index) if kwargs else b.wif(index)
    if app == "xprv":
        return b.xprv(index=index) if kwargs else b.xprv(index)
    if app == "hex":
        return b.hex(num_bytes=param, index=index) if kwargs else b.hex(param, index)
    if app == "pwd":
        return b.pwd(pwd_len=param, index=index) if kwargs else b.pwd(param, index)
    raise ValueError(app)


def make_b85(case, ctx):
    Prv, B85, BaseWallet, PaperWallet = _impl()
    k, c = case["k"], case["c"]
    route = case.get("route", "direct")
    rm = R.Node.from_priv(k, c)
    log = None
    if route == "direct":
        node = rec_class()(key=k.to_bytes(32, "big"), chain_code=c)
        node.log = log = []
        b = B85(master_node=node)
    elif route == "key33":
        b = B85(master_node=Prv(key=b"\x00" + k.to_bytes(32, "big"), chain_code=c))
    elif route == "from_xprv":
        b = B85.from_xprv(xprv=rm.xprv(), testnet=False) if k % 2 else B85.from_xprv(rm.xprv())
    elif route == "from_xprv-slip132":
        # the same master key exported under another private version (yprv / zprv / uprv / vprv): BIP85 ignores version bytes
        ver = R.VERSION_OF[("prv", bool(k & 2), 84 if k & 1 else 49)]
        b = B85.from_xprv(rm.xprv(ver), bool(k & 2)) if k & 4 else B85.from_xprv(xprv=rm.xprv(ver))
    elif route == "wallet":
        b = BaseWallet(master=Prv(key=k.to_bytes(32, "big"), chain_code=c)).bip85
    elif route == "deep-master":
        # the master extended private key sits many levels below its own root (depth byte 250..255): BIP85 uses key and chain code only
        deep = R.Node.from_priv(k, c, 250 + k % 6, (k >> 8) % 2 ** 32, b"\x12\x34\x56\x78")
        if k & 64:
            b = B85.from_xprv(deep.xprv())
        else:
            b = B85(master_node=Prv(key=k.to_bytes(32, "big"), chain_code=c, depth=deep.depth, index=deep.index, parent_fingerprint=deep.pfp))
    elif route in ("derived-node", "derived-node-wallet"):
        # the BIP85 master is a node object the library derived itself: it has a live parent and siblings
        top = Prv(key=k.to_bytes(32, "big"), chain_code=c)
        walk = [84 + H, H, (k % 5) + H] if k % 2 else [k % 7]
        try:
            rm = R.derive(rm, walk)
        except R.Invalid:
            return rm, B85(master_node=top), None
        top.ckd(44 + H)
        node = top.derive_path(list(walk))
        b = B85(master_node=node) if route == "derived-node" else BaseWallet(master=node).bip85
    else:
        b = PaperWallet.from_extended_key(rm.xprv(R.TPRV)).bip85
    return rm, b, log


def check_app(case, ctx):
    app, param, index = case["app"], case["param"], case["index"]
    rm, b, log = make_b85(case, ctx)
    try:
        want, want_path = app_expect(rm, app, param, index)
    except R.Invalid:
        ctx.count("invalid-secret-skipped")
        return
    if index % 3 == 0:
        # the caller has parsed this very path string before (positional and keyword form) and edited the objects it got
        from btc_hd_wallet.wallet_utils import Bip32Path
        pstr = R.fmt_path(want_path, "m")
        for f in (lambda: Bip32Path.parse(pstr), lambda: Bip32Path.parse(s=pstr)):
            st_p, po = call(f)
            if st_p == "ok":
                for attr, val in (("account", H + 2), ("chain", H + 1), ("addr_index", H + 5), ("coin_type", H + 39), ("purpose", H + 44)):
                    try:
                        if getattr(po, attr, None) is not None:
                            setattr(po, attr, val)
                    except Exception:  # noqa: BLE001
                        pass
        ctx.count("path-string-parsed-and-edited-by-caller-first")
    st_, got = call(app_call, b, app, param, index, case.get("kwargs", True))
    what = "bip85 %s(param=%r, index=%d) master k=%#x via %s" % (app, param, index, case["k"], case.get("route", "direct"))
    if st_ == "exc":
        raise Violation("C12/%s/raised" % app, "%s raised %r" % (what, got))
    if got != want:
        raise Violation("C12/%s/value-differs" % app, "%s = %r, BIP85 defines %r (path %s)" % (what, got, want, R.fmt_path(want_path)))
    if not case.get("_sibling"):
        # a master with the same private key and another chain code, in the same process
        c2 = bytes([case["c"][0] ^ 0x80]) + case["c"][1:]
        check_app(dict(case, c=c2, _sibling=True), ctx)
    if log is not None:
        if len(log) != 1 or len(log[0]) != len(want_path):
            ctx.count("derive_path-not-observed-as-one-call")
        elif log != [want_path]:
            raise Violation("C12/%s/path" % app, "%s derived %s, specified path is %s"
                            % (what, [R.fmt_path(p) for p in log], R.fmt_path(want_path)))


PARAMS = {"mnemonic": WORDS, "wif": [None], "xprv": [None], "hex": list(range(16, 65)), "pwd": list(range(20, 87))}
MASTERS = [(1, b"\x00" * 32), (N - 1, b"\xff" * 32), (0x00FACE << 200, bytes(range(32))),
           (0xE8F32E723DECF4051AEFAC8E2C93C9C5B214313817CDB01A1494B917C8436B35,
            bytes.fromhex("873dff81c02f525623fd1fe5167eac3a55a049de3d314bb42ee227ffed37d508"))]


def enum_apps(tier):
    idxs = [0, 1, H - 1] if tier == "quick" else [0, 1, 2, H - 2, H - 1, 1000003]
    masters = MASTERS[:3] if tier == "quick" else MASTERS
    routes = ["direct", "from_xprv", "wallet", "key33", "paper-tprv", "derived-node", "derived-node-wallet", "from_xprv-slip132"]
    n = 0
    for app, params in PARAMS.items():
        for param in params:
            for mi, (k, c) in enumerate(masters):
                for ii, index in enumerate(idxs):
                    n += 1
                    yield {"app": app, "param": param, "index": index, "k": k, "c": c,
                           "route": routes[(n + mi + ii) % len(routes)], "kwargs": bool(n % 2)}


def gen_apps(tier):
    def mk(app, p, index, k, c, route, kw):
        params = PARAMS[app]
        return {"app": app, "param": params[p % len(params)], "index": index, "k": k, "c": c, "route": route, "kwargs": kw}
    return st.builds(mk, st.sampled_from(sorted(PARAMS)), st.integers(0, 1000),
                     S.normal_indexes(), S.scalars(), S.chain_codes(),
                     st.sampled_from(["direct", "direct", "from_xprv", "wallet", "key33", "paper-tprv", "derived-node", "derived-node-wallet", "from_xprv-slip132", "deep-master"]), st.booleans())


def nt_app(case):
    app, param = case["app"], case["param"]
    edge = {"mnemonic": (12, 24), "hex": (16, 64), "pwd": (20, 86)}.get(app, ())
    return case["index"] in (0, H - 1) or param in edge or S.scalar_class(case["k"]) in ("tiny", "leading-zero")


# ------------------------------------------------------------------------------------ rejection
BAD = {
    "mnemonic": [0, 1, 11, 13, 14, 23, 25, 48, -12, -24, 12 + H, 24 + 2 ** 32, 36],
    "hex": [15, 65, 0, 1, -16, -32, 32 + H, 64 + 2 ** 32, 128],
    "pwd": [19, 87, 0, 1, -20, -21, 21 + H, 86 + 2 ** 32, 100],
}
import decimal
import fractions
BAD_INDEX = [-1, -2, -H, -H - 1, H, H + 1, 2 ** 32 - 1, 2 ** 32, 2 ** 32 + 1, -2 ** 32, 2 ** 64]
# numbers that are not integers are outside every allowed set as well (values, not types: 1.5 is not an index)
NON_INTEGRAL = [-0.5, -0.999, 0.5, 1.5, 7.9, float(H) - 0.5, float(H) + 0.5, decimal.Decimal("7.9"), decimal.Decimal("-0.5"),
                fractions.Fraction(3, 2)]


def enum_reject(tier):
    k, c = MASTERS[2]
    for app, bads in BAD.items():
        for bad in bads:
            for index in (0, 1, H - 1):
                yield {"app": app, "param": bad, "index": index, "k": k, "c": c, "what": "param"}
    for app, params in PARAMS.items():
        for index in BAD_INDEX:
            for param in (params[0], params[-1]):
                yield {"app": app, "param": param, "index": index, "k": k, "c": c, "what": "index"}
        for j in range(len(NON_INTEGRAL)):
            yield {"app": app, "param": params[0], "index": 0, "nonint": j, "k": k, "c": c, "what": "index"}


def gen_reject(tier):
    def mk(app, bad_param, p, index_bad, index_ok, k, c, which):
        params = PARAMS[app]
        if which == "param" and app in BAD:
            return {"app": app, "param": bad_param, "index": index_ok, "k": k, "c": c, "what": "param"}
        return {"app": app, "param": params[p % len(params)], "index": index_bad, "k": k, "c": c, "what": "index"}
    bad_param = st.one_of(st.integers(-100, 11), st.integers(87, 200), st.sampled_from([13, 14, 16, 17, 19, 20, 22, 23]),
                          st.integers(H, 2 ** 33))
    bad_index = st.one_of(st.sampled_from(BAD_INDEX), st.integers(-2 ** 33, -1), st.integers(H, 2 ** 33))
    return st.builds(mk, st.sampled_from(sorted(PARAMS)), bad_param, st.integers(0, 1000), bad_index,
                     st.integers(0, H - 1), S.scalars(), S.chain_codes(), st.sampled_from(["param", "index"]))


def param_ok(app, param):
    return param in PARAMS[app]


def check_reject(case, ctx):
    app, param, index = case["app"], case["param"], case["index"]
    if case.get("nonint") is not None:
        index = NON_INTEGRAL[case["nonint"]]
    elif param_ok(app, param) and 0 <= index < H:
        ctx.count("generated-valid-skipped")
        return
    rm, b, log = make_b85(dict(case, route="direct"), ctx)
    st_, got = call(app_call, b, app, param, index)
    if st_ == "ok":
        derived = [R.fmt_path(p) for p in (log or [])]
        raise Violation("C12/reject/out-of-range-accepted[%s:%s]" % (app, case["what"]),
                        "bip85 %s(param=%r, index=%r) returned %r (derived %s) instead of raising"
                        % (app, param, index, got, derived))


# ------------------------------------------------------------------------------------ paper wallet block
def check_block(case, ctx):
    Prv, B85, BaseWallet, PaperWallet = _impl()
    seed = case["seed"]
    try:
        rm = R.master(seed)
    except R.Invalid:
        return
    w = PaperWallet.from_bip39_seed_bytes(seed, case["testnet"])
    st_, data = call(w.bip85_data)
    if st_ == "exc":
        raise Violation("C12/block/raised", "bip85_data() raised %r" % (data,))
    want = {}
    for wc in (24, 18, 12):
        want["m/83696968'/39'/0'/%d'/0'" % wc] = R85.mnemonic(rm, wc, 0)
    for i in (0, 1, 2):
        want["m/83696968'/2'/%d'" % i] = R85.wif(rm, i)
        want["m/83696968'/32'/%d'" % i] = R85.xprv(rm, i)
    if data != want:
        diff = [k for k in set(want) | set(data) if want.get(k) != data.get(k)]
        raise Violation("C12/block/differs", "bip85_data() differs from BIP85 at %s: %r vs %r"
                        % (diff[:2], data.get(diff[0]), want.get(diff[0])))


# ------------------------------------------------------------------------------------ leading-zero derived keys
def enum_lz(tier):
    for mi in range(2 if tier == "quick" else 4):
        for app in ("hex", "wif", "pwd", "mnemonic", "xprv"):
            yield {"m": mi, "app": app}


def app_path(app, param, index):
    if app == "mnemonic":
        return R85.path_mnemonic(param, index)
    if app == "wif":
        return R85.path_wif(index)
    if app == "xprv":
        return R85.path_xprv(index)
    if app == "hex":
        return R85.path_hex(param, index)
    return R85.path_pwd(param, index)


def check_lz(case, ctx):
    """Find (with the reference) the first index whose derived node key starts with a zero byte."""
    k, c = MASTERS[case["m"]]
    rm = R.Node.from_priv(k, c)
    app = case["app"]
    param = {"hex": 32, "pwd": 21, "mnemonic": 12}.get(app)
    base = R.derive(rm, app_path(app, param, 0)[:-1])   # common prefix once, then scan the last level
    found = None
    for index in range(0, 3000):
        if R.ckd_priv(base, index + H).k < (1 << 248):
            found = index
            break
    if found is None:
        ctx.count("no-leading-zero-key-found")
        return
    ctx.count("leading-zero-key-found")
    for route in ("direct", "from_xprv", "key33"):
        check_app({"app": app, "param": param, "index": found, "k": k, "c": c, "route": route}, ctx)


# ------------------------------------------------------------------------------------ one object, several threads
def gen_threads(tier):
    def mk(app, p, index):
        params = PARAMS[app]
        return [app, params[p % len(params)], index]
    req = st.builds(mk, st.sampled_from(sorted(PARAMS)), st.integers(0, 1000), st.sampled_from([0, 1, 2, 3, H - 1]))
    # ordinary wallet use of the SAME master node from another thread (account / address derivations)
    walk = st.lists(st.one_of(st.sampled_from([44 + H, 49 + H, 84 + H, H, 0, 1]), S.indexes()), min_size=1, max_size=3).map(
        lambda pth: ["derive", None, pth])
    return st.fixed_dictionaries({
        "k": S.scalars(), "c": S.chain_codes(), "warmup": st.lists(req, max_size=2),
        "threads": st.lists(st.lists(st.one_of(req, req, walk), min_size=1, max_size=2), min_size=2, max_size=3),
        "plan": st.lists(st.tuples(st.integers(0, 2), st.integers(1, 25)), min_size=3, max_size=60)})


def check_threads(case, ctx):
    from vlib.sched import Scheduler
    import btc_hd_wallet.bip85 as m85
    import btc_hd_wallet.bip32 as m32
    import btc_hd_wallet.wallet_utils as mwu
    Prv, B85, BaseWallet, PaperWallet = _impl()
    rm = R.Node.from_priv(case["k"], case["c"])
    master = Prv(key=case["k"].to_bytes(32, "big"), chain_code=case["c"])
    b = B85(master_node=master)
    for app, param, index in case["warmup"]:
        call(app_call, b, app, param, index)

    def runner(reqs):
        def run():
            out = []
            for app, param, index in reqs:
                if app == "derive":
                    st_, v = call(lambda: master.derive_path(list(index)).extended_private_key())
                else:
                    st_, v = call(app_call, b, app, param, index)
                out.append(v if st_ == "ok" else ["EXC", repr(v)])
            return out
        return run
    sched = Scheduler([tuple(x) for x in case["plan"]], [m85.__file__, m32.__file__, mwu.__file__])
    results, errors = sched.run([runner(r) for r in case["threads"]])
    ctx.count("switches", sched.switches)
    ctx.nontrivial = sched.switches >= 2
    for t, reqs in enumerate(case["threads"]):
        if t in errors:
            raise Violation("C12/threads/crashed", "thread %d raised %r" % (t, errors[t]))
        for j, (app, param, index) in enumerate(reqs):
            try:
                if app == "derive":
                    want = R.derive(rm, list(index)).xprv(R.XPRV)
                else:
                    want, _ = app_expect(rm, app, param, index)
            except R.Invalid:
                continue
            if app == "derive":
                ctx.count("wallet-derivation-beside-bip85")
            if results[t][j] != want:
                raise Violation("C12/threads/value-differs[%s]" % app, "with %d threads sharing one BIP85 object and its master node, %s(param=%r, "
                                "index=%r) = %r, expected %r" % (len(case["threads"]), app, param, index, results[t][j], want))


DEFAULTS = {"mnemonic": 24, "hex": 32, "pwd": 21}


def enum_keywords(tier):
    for mi in range(2):
        for app, params in (("hex", [16, 20, 32, 33, 40, 64]), ("pwd", [20, 21, 33, 40, 86]), ("mnemonic", [12, 15, 18, 21, 24])):
            for v in params:
                yield {"m": mi, "app": app, "v": v}
        for v in (0, 1, 7):
            yield {"m": mi, "app": "wif", "v": v}
            yield {"m": mi, "app": "xprv", "v": v}


def check_keywords(case, ctx):
    """Partial-keyword calls that rely on the documented defaults, on ONE object, in both roles and orders."""
    Prv, B85, BaseWallet, PaperWallet = _impl()
    k, c = MASTERS[case["m"]]
    rm = R.Node.from_priv(k, c)
    b = B85(master_node=Prv(key=k.to_bytes(32, "big"), chain_code=c))
    app, v = case["app"], case["v"]
    meth = {"mnemonic": b.bip39_mnemonic, "hex": b.hex, "pwd": b.pwd, "wif": b.wif, "xprv": b.xprv}[app]
    pname = {"mnemonic": "word_count", "hex": "num_bytes", "pwd": "pwd_len"}.get(app)
    calls = []
    if pname:
        d = DEFAULTS[app]
        calls = [("%s(%s=%d)" % (app, pname, v), lambda: meth(**{pname: v}), (app, v, 0)),
                 ("%s(index=%d)" % (app, v), lambda: meth(index=v), (app, d, v)),
                 ("%s(index=%d, %s=%d)" % (app, v, pname, d), lambda: meth(**{"index": v, pname: d}), (app, d, v)),
                 ("%s(%s=%d, index=%d)" % (app, pname, v, d), lambda: meth(**{pname: v, "index": d}), (app, v, d)),
                 ("%s(index=%d, %s=%d)" % (app, d, pname, v), lambda: meth(**{"index": d, pname: v}), (app, v, d)),
                 ("%s(%d)" % (app, v), lambda: meth(v), (app, v, 0)),
                 ("%s()" % app, lambda: meth(), (app, d, 0))]
    else:
        calls = [("%s(index=%d)" % (app, v), lambda: meth(index=v), (app, None, v)), ("%s(%d)" % (app, v), lambda: meth(v), (app, None, v)),
                 ("%s()" % app, lambda: meth(), (app, None, 0))]
    for what, f, (a_, p_, i_) in calls:
        try:
            want, _ = app_expect(rm, a_, p_, i_)
        except R.Invalid:
            continue
        st_, got = call(f)
        if st_ == "exc" or got != want:
            raise Violation("C12/keywords/value-differs[%s]" % app, "bip85 %s on a shared object = %r, BIP85 defines %r for "
                            "(param=%r, index=%d)" % (what, got, want, p_, i_))


# ------------------------------------------------------------------------------------ one object used for a long time
def enum_long_use(tier):
    n = 2200 if tier == "quick" else 9000
    for j, app in enumerate(["wif", "hex"] if tier == "quick" else ["wif", "hex", "xprv", "pwd", "mnemonic"]):
        yield {"app": app, "count": n, "m": j % len(MASTERS)}


def check_long_use(case, ctx):
    """More distinct secrets than any small table holds are drawn from ONE BIP85 object; then early, middle and late requests
    are repeated on it and the next new index is asked for."""
    Prv, B85, BaseWallet, PaperWallet = _impl()
    k, c = MASTERS[case["m"]]
    rm = R.Node.from_priv(k, c)
    b = B85(master_node=Prv(key=k.to_bytes(32, "big"), chain_code=c))
    app, n = case["app"], case["count"]
    param = {"wif": None, "xprv": None, "hex": 32, "pwd": 21, "mnemonic": 12}[app]
    first = {}
    probes = sorted({0, 1, 2, 7, n // 2, n - 2050, n - 2049, n - 2048, n - 2047, n - 1025, n - 1024, n - 257, n - 256, n - 2, n - 1} & set(range(n)))
    for i in range(n):
        v = app_call(b, app, param, i)
        if i in probes:
            first[i] = v
    ctx.count("__extra_evals__", n)
    for i in probes + [n, n + 1]:
        try:
            want, _ = app_expect(rm, app, param, i)
        except R.Invalid:
            continue
        st_, got = call(app_call, b, app, param, i)
        if st_ == "exc" or got != want or first.get(i, want) != want:
            raise Violation("C12/long-use/value-differs[%s]" % app, "after %d requests on one BIP85 object, %s(index=%d) = %r (first time: "
                            "%r), BIP85 defines %r" % (n, app, i, got, first.get(i), want))


def clauses():
    return [
        Clause("apps", check_app,
               "five applications: every allowed parameter (5 word counts, bytes 16..64, lengths 20..86) x 3 masters x 3 "
               "indexes {0,1,2^31-1} enumerated, plus generated masters/indexes; five routes (direct, 00||k key, "
               "from_xprv, BaseWallet.bip85, PaperWallet from tprv); value equals independent BIP85 and the recorded "
               "derivation path equals the specified fully hardened path; non-trivial = index or parameter at a bound, "
               "or tiny/leading-zero master scalar",
               enum=enum_apps, gen=gen_apps, nontrivial=nt_app, exhaustive=True,
               enum_desc="all allowed application parameters x masters x indexes {0,1,2^31-1}",
               classes=lambda c: [c["app"], "route:" + c.get("route", "direct")],
               n={"quick": 600, "thorough": 60000}, shards={"quick": 16, "thorough": 16}),
        Clause("reject", check_reject,
               "word counts / byte counts / password lengths outside the allowed sets and indexes outside [0, 2^31) "
               "(negative, 2^31, 2^32-1, 2^32, ...) must raise; every case is rejection-class",
               enum=enum_reject, gen=gen_reject, classes=lambda c: [c["app"] + ":" + c["what"]],
               enum_desc="listed bad parameters x 3 indexes, 11 bad indexes x 5 apps x 2 parameters",
               n={"quick": 800, "thorough": 60000}, shards={"quick": 16, "thorough": 16}),
        Clause("defaults-and-keywords", check_keywords,
               "one BIP85 object, partial-keyword calls relying on the documented defaults (parameter only / index only), "
               "both keyword orders, positional and bare calls, with values that are valid in either role (e.g. 40 as "
               "byte count and as index)", enum=enum_keywords, exhaustive=True,
               enum_desc="2 masters x (6 hex + 5 pwd + 5 mnemonic values + 3 wif/xprv indexes) x 3-7 call styles",
               shards={"quick": 8, "thorough": 8}),
        Clause("shared-object-threads", check_threads,
               "2..3 threads issue 1..2 requests each - BIP85 applications on ONE BIP85 object, or ordinary derive_path "
               "walks on the very master node it wraps - (after 0..2 warm-up requests) under "
               "the deterministic line-granularity scheduler; every answer must equal independent BIP85; non-trivial = "
               ">= 2 thread switches (measured)", gen=gen_threads,
               n={"quick": 150, "thorough": 6000}, shards={"quick": 16, "thorough": 16}),
        Clause("invalid-level", lambda case, ctx: __import__("vlib.props.c18", fromlist=["x"]).check_bip85_path(case, ctx, sig="C12/invalid-level"),
               "'rejected rather than mapped onto some other path': when the child at a generated level of the "
               "application path is invalid (PRF substitute keyed on that level's CKD message) the request must fail - not "
               "answer with the secret of a neighbouring index or path - also when repeated, and index+1 is still "
               "served correctly afterwards",
               gen=lambda tier: __import__("vlib.props.c18", fromlist=["x"]).gen_bip85_path(tier),
               classes=lambda c: ["%s:%s" % (c["app"], c["kind"])],
               n={"quick": 400, "thorough": 20000}, shards={"quick": 16, "thorough": 16}),
        Clause("long-use", check_long_use,
               "2200 (thorough: 9000) consecutive indexes of one application drawn from ONE BIP85 object, then early / middle / "
               "late indexes (around every power-of-two distance from the end) asked again and two new ones; against the "
               "reference",
               enum=enum_long_use, exhaustive=True, enum_desc="2 (quick) / 5 (thorough) applications x 2200 / 9000 requests on one object",
               nontrivial=lambda c: True, shards={"quick": 2, "thorough": 5}),
        Clause("paper-block", check_block,
               "PaperWallet.bip85_data(): its nine labelled entries equal BIP85 at exactly the labelled paths",
               gen=lambda tier: st.fixed_dictionaries({"seed": S.seeds(16, 64), "testnet": st.booleans()}),
               nontrivial=lambda c: True, n={"quick": 60, "thorough": 3000}, shards={"quick": 16, "thorough": 16}),
        Clause("leading-zero-keys", check_lz,
               "the reference searches, per application, the first index whose derived private key starts with a zero "
               "byte (1 in 256); the application output at that index must still equal BIP85",
               enum=enum_lz, enum_desc="2 (quick) / 4 (thorough) masters x 5 applications",
               shards={"quick": 10, "thorough": 16}),
    ]
