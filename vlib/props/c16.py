"""C16 — Mainnet and testnet artefacts never mix."""
import json

from hypothesis import strategies as st

from vlib import strategies as S
from vlib.engine import Clause, Violation
from vlib.ref import bip32 as R
from vlib.ref import classify as C
from vlib.util import call
from vlib.props.c05 import KINDS

PROPERTY_ID = "C16"
OPTIMIZED = ['wallet', 'import', 'cli']   # clauses run a second time under `python -O` (assert statements stripped)
RULE = ("seeds x both networks x accounts x intervals (0..3 rows) x node paths drawn from a set that contains BIP44/49/84 "
        "purposes and both coin types on both networks; wallets re-imported from reference keys under all 12 versions "
        "(exhaustive per case); every emitted string is classified main/test/untagged by independent decoders")
ASSUMPTIONS = ["the BIP85 block is network-neutral by BIP85's own definition (mainnet-encoded fresh secrets) and is "
               "governed by C12: its leaves are counted, not judged",
               "untagged leaves (SEC hex, fingerprints, None) carry no network"]
H = S.H
NET = {True: "test", False: "main"}


def _impl():
    from btc_hd_wallet.base_wallet import BaseWallet
    from btc_hd_wallet.paper_wallet import PaperWallet
    return BaseWallet, PaperWallet


def node_paths():
    comp = st.one_of(st.sampled_from([H + 44, H + 49, H + 84, H, H + 1, H + 2, 0, 1, 2]), S.indexes())
    return st.lists(comp, max_size=5)


def tagged(sig, what, s, net, ctx, kinds=None):
    """Classify s; if it carries a network tag it must be `net`."""
    c = C.classify(s)
    if c["net"] is None:
        ctx.count("untagged:" + c["kind"])
        return c
    ctx.count("%s|%s" % (c["kind"], c["net"]))
    if c["net"] != net:
        raise Violation(sig, "%s: %s is a %snet %s, the wallet is %snet" % (what, s, c["net"], c["kind"], net))
    if kinds is not None and c["kind"] not in kinds:
        raise Violation(sig + "/kind", "%s: %s decodes as %s, expected one of %s" % (what, s, c["kind"], kinds))
    return c


def check_wallet(case, ctx):
    BaseWallet, PaperWallet = _impl()
    testnet = case["testnet"]
    net = NET[testnet]
    try:
        R.master(case["seed"])
    except R.Invalid:
        return
    # a wallet of the OTHER network (other seed) visits the same paths first, in the same process
    decoy = PaperWallet.from_bip39_seed_bytes(bytes(b ^ 0x5A for b in case["seed"]) or b"\x01" * 16, not testnet)
    for path in [[]] + [list(p) for p in case["paths"]]:
        st_, dn = call(decoy.master.derive_path, path)
        if st_ == "ok":
            call(decoy.node_extended_keys, dn)
            call(decoy.p2wsh_address, dn)
    call(decoy.wasabi_json)
    # the wallet as the caller holds it: fresh; created with the flag spelled 0 / 1; or a duplicate of a wallet
    # (copy.deepcopy, pickle round trip) - a duplicate is the same wallet on the same network
    wform = case.get("wform", "plain")
    if wform == "int-flag":
        st_, w = call(PaperWallet.from_bip39_seed_bytes, case["seed"], int(testnet))
        if st_ == "exc":
            ctx.count("non-bool-flag-refused (not judged)")
            w = PaperWallet.from_bip39_seed_bytes(case["seed"], testnet)
    elif wform == "mnemonic-pw":
        # from a sentence and a passphrase in composed / compatibility / decomposed Unicode form (the text never names a network)
        from vlib.ref import bip39 as R39
        pw = ["caf\u00e9", "\uff50\uff57\u2460", "cafe\u0301", "\ufb01n", "\u00c5ngstr\u00f6m"][case["seed"][0] % 5]
        w = PaperWallet.from_mnemonic(R39.encode(case["seed"][:16]), pw, testnet) if case["seed"][1] & 1 else \
            PaperWallet.from_mnemonic(mnemonic=R39.encode(case["seed"][:16]), password=pw, testnet=testnet)
    else:
        w = PaperWallet.from_bip39_seed_bytes(case["seed"], testnet)
    if wform in ("deepcopy", "pickle"):
        import copy
        import pickle
        call(w.master.derive_path, [H + 84, H + (1 if testnet else 0), H])
        st_, dup = call(copy.deepcopy, w) if wform == "deepcopy" else call(lambda: pickle.loads(pickle.dumps(w)))
        if st_ == "exc":
            ctx.count("wallet-not-copyable[%s] (not judged)" % wform)
        else:
            w = dup
    ctx.count("wallet-form:" + wform)
    acct, iv = case["account"], [case["start"], case["start"] + case["rows"]]
    st_, data = call(w.generate, acct, tuple(iv))
    if st_ == "exc":
        raise Violation("C16/generate/raised", "generate raised %r" % (data,))
    call(decoy.generate, acct, tuple(iv))      # must not change the record already handed out
    for sec_name in ("BIP44", "BIP49", "BIP84"):
        blk = data[sec_name]
        keys = blk["account_extended_keys"]
        want_coin = "1'" if testnet else "0'"
        comps = keys["path"].split("/")
        if len(comps) != 4 or comps[2] != want_coin:
            raise Violation("C16/path/coin-type", "%s account path %s on %snet (coin type must be %s)" % (sec_name, keys["path"], net, want_coin))
        tagged("C16/account-key/network", "%s account pub" % sec_name, keys["pub"], net, ctx, ("xpub",))
        tagged("C16/account-key/network", "%s account prv" % sec_name, keys["prv"], net, ctx, ("xprv",))
        for row in blk["groups"]:
            comps = row[0].split("/")
            if comps[2] != want_coin:
                raise Violation("C16/path/coin-type", "%s row path %s on %snet" % (sec_name, row[0], net))
            tagged("C16/row/address-network", "%s row %s address" % (sec_name, row[0]), row[1], net, ctx, ("p2pkh", "p2sh", "segwit"))
            tagged("C16/row/sec", "row sec", row[2], net, ctx)
            tagged("C16/row/wif-network", "%s row %s WIF" % (sec_name, row[0]), row[3], net, ctx, ("wif",))
    strs = []
    _leaves(data["BIP85"], strs)
    for s in strs:
        c = C.classify(s)
        ctx.count("bip85_leaves_network_neutral:" + c["kind"])
    # arbitrary nodes
    for path in case["paths"]:
        try:
            node = w.master.derive_path(list(path))
        except Exception:  # noqa: BLE001
            continue
        what = "%snet wallet node %s" % (net, R.fmt_path(path))
        st_, keys = call(w.node_extended_keys, node)
        if st_ == "exc":
            raise Violation("C16/node-keys/raised", "%s: node_extended_keys raised %r" % (what, keys))
        tagged("C16/node-keys/network", what + " node_extended_keys pub", keys["pub"], net, ctx, ("xpub",))
        tagged("C16/node-keys/network", what + " node_extended_keys prv", keys["prv"], net, ctx, ("xprv",))
        tagged("C16/node-keys/network", what + " node_extended_public_key", w.node_extended_public_key(node), net, ctx, ("xpub",))
        tagged("C16/node-keys/network", what + " node_extended_private_key", w.node_extended_private_key(node), net, ctx, ("xprv",))
        tagged("C16/node-default/network", what + " extended_public_key()", node.extended_public_key(), net, ctx, ("xpub",))
        tagged("C16/node-default/network", what + " extended_private_key()", node.extended_private_key(), net, ctx, ("xprv",))
        for kind in KINDS:
            tagged("C16/address/network", "%s %s_address" % (what, kind), getattr(w, kind + "_address")(node), net, ctx,
                   ("p2pkh", "p2sh", "segwit"))
        if len(path) < 60:
            g = w.address_generator(node)
            first = next(g)
            second = g.send(3)
            g.close()
            tagged("C16/address/generator-network", what + " address_generator() default, first yield", first[1], net, ctx, ("segwit",))
            tagged("C16/address/generator-network", what + " address_generator() after send(3)", second[1], net, ctx, ("segwit",))
            g2 = w.address_generator(node, w.p2sh_p2wsh_address)
            tagged("C16/address/generator-network", what + " address_generator(p2sh_p2wsh)", next(g2)[1], net, ctx, ("p2sh",))
            g2.close()
        rows = w.group([node], w.p2sh_p2wpkh_address)
        tagged("C16/row/address-network", what + " group address", rows[0][1], net, ctx)
        tagged("C16/row/wif-network", what + " group WIF", rows[0][3], net, ctx, ("wif",))
        tagged("C16/wif/network", what + " private_key.wif(testnet=wallet.testnet)", node.private_key.wif(testnet=w.testnet), net, ctx, ("wif",))
    st_, wj = call(w.wasabi_json)
    if st_ == "exc":
        raise Violation("C16/wasabi/raised", "wasabi_json raised %r" % (wj,))
    tagged("C16/wasabi/network", "Wasabi ExtPubKey of a %snet wallet" % net, json.loads(wj)["ExtPubKey"], net, ctx, ("xpub",))


def _leaves(o, out):
    if isinstance(o, str):
        out.append(o)
    elif isinstance(o, dict):
        for k, v in o.items():
            out.append(k)
            _leaves(v, out)
    elif isinstance(o, (list, tuple)):
        for v in o:
            _leaves(v, out)


def check_import(case, ctx):
    BaseWallet, PaperWallet = _impl()
    try:
        rm = R.master(case["seed"])
        rnode = R.derive(rm, case["path"])
    except R.Invalid:
        return
    cls = PaperWallet if case["paper"] else BaseWallet
    for v, (typ, testnet, purpose) in sorted(R.SLIP132.items()):
        net = NET[testnet]
        private = typ == "prv"
        s = rnode.xprv(v) if private else rnode.xpub(v)
        what = "wallet imported from %s... (%snet %s)" % (s[:4], net, typ)
        # the key arrives as a string through from_extended_key, or as bytes / a stream through the node class with the
        # network passed explicitly (the documented parse(s, testnet) forms), the wallet then built around that node
        from io import BytesIO
        from btc_hd_wallet.bip32 import PrvKeyNode, PubKeyNode
        ncls = PrvKeyNode if private else PubKeyNode
        raw = rnode.payload(v, private)
        variant = (v + len(case["path"]) + len(case["sub"])) % 4
        if variant == 1:
            what += " via parse(bytes, testnet)"
            st_, w = call(lambda: cls(ncls.parse(raw, testnet), testnet))
        elif variant == 2:
            what += " via parse(BytesIO, testnet=)"
            st_, w = call(lambda: cls(master=ncls.parse(BytesIO(raw), testnet=testnet), testnet=testnet))
        elif variant == 3:
            what += " via parse(str, testnet)"
            st_, w = call(lambda: cls(ncls.parse(s, testnet), testnet))
        else:
            st_, w = call(cls.from_extended_key, s)
        if st_ == "exc":
            raise Violation("C16/import/raised", "%s raised %r" % (what, w))
        if bool(w.testnet) != testnet:
            raise Violation("C16/import/network-flag", "%s has testnet=%r" % (what, w.testnet))
        nodes = [("master", w.master)]
        st_, ch = call(w.master.derive_path, list(case["sub"]))
        if st_ == "ok":
            nodes.append(("child %s" % R.fmt_path(case["sub"], "M"), ch))
        for label, node in nodes:
            w2 = "%s, %s" % (what, label)
            for kind in KINDS:
                tagged("C16/import/address-network", "%s %s_address" % (w2, kind), getattr(w, kind + "_address")(node), net, ctx)
            tagged("C16/import/default-xpub-network", w2 + " extended_public_key()", node.extended_public_key(), net, ctx, ("xpub",))
            st_, keys = call(w.node_extended_keys, node)
            if st_ == "ok":
                tagged("C16/import/node-keys-network", w2 + " node_extended_keys pub", keys["pub"], net, ctx, ("xpub",))
                if keys["prv"] is not None:
                    tagged("C16/import/node-keys-network", w2 + " node_extended_keys prv", keys["prv"], net, ctx, ("xprv",))
            if private:
                tagged("C16/import/default-xprv-network", w2 + " extended_private_key()", node.extended_private_key(), net, ctx, ("xprv",))
                if case["paper"]:
                    rows = w.group([node], w.p2wpkh_address)
                    tagged("C16/import/wif-network", w2 + " group WIF", rows[0][3], net, ctx, ("wif",))
        if private and case["paper"] and rnode.depth == 0:
            st_, wj = call(w.wasabi_json)
            if st_ == "ok":
                tagged("C16/import/wasabi-network", what + " Wasabi ExtPubKey", json.loads(wj)["ExtPubKey"], net, ctx, ("xpub",))
            st_, data = call(w.generate, 0, (0, 1))
            if st_ == "ok":
                for sec_name in ("BIP44", "BIP49", "BIP84"):
                    k = data[sec_name]["account_extended_keys"]
                    tagged("C16/import/account-key-network", what + " %s account pub" % sec_name, k["pub"], net, ctx)
                    tagged("C16/import/account-key-network", what + " %s account prv" % sec_name, k["prv"], net, ctx)
                    if k["path"].split("/")[2] != ("1'" if testnet else "0'"):
                        raise Violation("C16/path/coin-type", "%s %s account path %s" % (what, sec_name, k["path"]))
                    for row in data[sec_name]["groups"]:
                        tagged("C16/import/row-network", what + " row address", row[1], net, ctx)
                        tagged("C16/import/row-network", what + " row WIF", row[3], net, ctx)


# ------------------------------------------------------------------------------------ the command line
def check_cli(case, ctx):
    """Every network-tagged string the command prints (or saves) carries the network asked for on the command line."""
    from vlib import cli
    from vlib.ref import bip39 as R39
    testnet = case["testnet"]
    net = NET[testnet]
    try:
        rm = R.master(case["seed"])
    except R.Invalid:
        return
    m = R39.encode(case["seed"][:16])
    sub = {"from-mnemonic": ["from-mnemonic", m], "from-entropy-hex": ["from-entropy-hex", case["seed"][:16].hex()],
           "new": ["new", "--mnemonic-len", "12"], "from-bip39-seed": ["from-bip39-seed", (case["seed"] * 4)[:64].hex()],
           "from-master-xprv": ["from-master-xprv", rm.xprv(R.TPRV if testnet else R.XPRV)]}[case["cmd"]]
    if case["pw"] and case["cmd"] in ("from-mnemonic", "from-entropy-hex", "new"):
        sub = sub + ["--password", case["pw"]]
    # from-master-xprv: the key's own prefix decides; a --testnet switch given along with it (either key network) changes nothing
    argv = (["--testnet"] if (testnet and case["cmd"] != "from-master-xprv") or (case["cmd"] == "from-master-xprv" and case.get("stray")) else []) + (["--paranoia"] if case["paranoia"] else []) \
        + ["--account", str(case["account"]), "--interval", "0", "2"] + sub
    r = cli.run_main(argv)
    if r["status"] != 0:
        ctx.count("cli-refused")
        return
    data = json.loads(r["out"])
    strs = []
    _leaves({k_: v_ for k_, v_ in data.items() if k_ in ("BIP44", "BIP49", "BIP84")}, strs)
    n_tagged = 0
    for s_ in strs:
        c = tagged("C16/cli/network", "CLI %r" % (argv,), s_, net, ctx)
        n_tagged += c["net"] is not None
    for sec_name in ("BIP44", "BIP49", "BIP84"):
        pth = data[sec_name]["account_extended_keys"]["path"]
        if pth.split("/")[2] != ("1'" if testnet else "0'"):
            raise Violation("C16/path/coin-type", "CLI %r: %s account path %s on %snet" % (argv, sec_name, pth, net))
    if n_tagged < 3:
        raise RuntimeError("CLI output carried no tagged strings")


def check_mismatch(case, ctx):
    """BaseWallet(master, testnet): the wallet's network is the `testnet` argument, whatever flag the node carries.
    Only wallet-level outputs are judged (node.extended_*_key() defaults follow the node's own flag by design)."""
    from btc_hd_wallet.bip32 import PrvKeyNode
    BaseWallet, PaperWallet = _impl()
    try:
        R.master(case["seed"])
    except R.Invalid:
        return
    testnet = case["testnet"]
    net = NET[testnet]
    node = PrvKeyNode.master_key(case["seed"], not testnet)        # the node carries the OTHER network's flag
    w = PaperWallet(node, testnet) if case["positional"] else PaperWallet(master=node, testnet=testnet)
    st_, data = call(w.generate, case["account"], (0, 2))
    if st_ == "exc":
        raise Violation("C16/mismatch/raised", "generate raised %r" % (data,))
    for sec_name in ("BIP44", "BIP49", "BIP84"):
        keys = data[sec_name]["account_extended_keys"]
        if keys["path"].split("/")[2] != ("1'" if testnet else "0'"):
            raise Violation("C16/path/coin-type", "%s account path %s on a %snet wallet" % (sec_name, keys["path"], net))
        tagged("C16/mismatch/account-key-network", "%s account pub (wallet testnet=%s, node flag %s)" % (sec_name, testnet, not testnet),
               keys["pub"], net, ctx, ("xpub",))
        tagged("C16/mismatch/account-key-network", "%s account prv" % sec_name, keys["prv"], net, ctx, ("xprv",))
        for row in data[sec_name]["groups"]:
            tagged("C16/mismatch/row-network", "%s row address" % sec_name, row[1], net, ctx)
            tagged("C16/mismatch/row-network", "%s row WIF" % sec_name, row[3], net, ctx, ("wif",))
    child = w.master.derive_path([H + 84, H + (1 if testnet else 0), H])
    k2 = w.node_extended_keys(child)
    tagged("C16/mismatch/node-keys-network", "node_extended_keys pub", k2["pub"], net, ctx, ("xpub",))
    tagged("C16/mismatch/node-keys-network", "node_extended_keys prv", k2["prv"], net, ctx, ("xprv",))
    for kind in KINDS:
        tagged("C16/mismatch/address-network", kind, getattr(w, kind + "_address")(child), net, ctx)
    # a root node built by hand with parent=<a node carrying the OTHER network's flag> and its own flag given explicitly
    par = PrvKeyNode.master_key(case["seed"], not testnet)
    rch = R.ckd_priv(R.master(case["seed"]), H + 7)
    hand = PrvKeyNode(key=rch.k.to_bytes(32, "big"), chain_code=rch.c, index=H + 7, depth=1, testnet=testnet, parent=par)
    wh = PaperWallet(hand, testnet)
    for label, f in (("extended_public_key() of the hand-built root", hand.extended_public_key),
                     ("extended_public_key() of its child", lambda: hand.ckd(0).extended_public_key()),
                     ("Wasabi ExtPubKey", lambda: json.loads(wh.wasabi_json())["ExtPubKey"])):
        st_, val = call(f)
        if st_ == "ok":
            tagged("C16/mismatch/hand-built-node-network", "%snet root built with parent=<%snet-flagged node>, testnet=%s: %s" % (
                net, NET[not testnet], testnet, label), val, net, ctx, ("xpub",))
    # two wallets of different networks around ONE node object: the first wallet (whose network is the node's own) is
    # questioned again after the second was built and used
    shared = PrvKeyNode.master_key(case["seed"], testnet)
    A = PaperWallet(shared, testnet)
    before = [A.wasabi_json(), shared.extended_public_key(), A.master.derive_path([H + 84, H, H]).extended_public_key()]
    B = PaperWallet(shared, not testnet) if case["positional"] else PaperWallet(master=shared, testnet=not testnet)
    call(B.generate, case["account"], (0, 1))
    call(B.wasabi_json)
    after = [A.wasabi_json(), shared.extended_public_key(), A.master.derive_path([H + 84, H, H + 1]).extended_public_key()]
    for label, val in (("Wasabi ExtPubKey", json.loads(after[0])["ExtPubKey"]), ("master extended_public_key()", after[1]),
                       ("extended_public_key() of a node derived afterwards", after[2])):
        tagged("C16/shared-node/first-wallet-network-changed", "a %snet wallet after a %snet wallet was built around the same "
               "master node object: %s" % (net, NET[not testnet], label), val, net, ctx, ("xpub",))
    if after[:2] != before[:2]:
        raise Violation("C16/shared-node/first-wallet-output-changed", "a %snet wallet's Wasabi export / master key changed after "
                        "another wallet was built around the same node object: %r -> %r" % (net, before[:2], after[:2]))
    data = A.generate(case["account"], (0, 1))
    for sec_name in ("BIP44", "BIP49", "BIP84"):
        tagged("C16/shared-node/first-wallet-network-changed", "%s account pub of the first wallet" % sec_name,
               data[sec_name]["account_extended_keys"]["pub"], net, ctx, ("xpub",))
        for row in data[sec_name]["groups"]:
            tagged("C16/shared-node/first-wallet-network-changed", "%s row address of the first wallet" % sec_name, row[1], net, ctx)
            tagged("C16/shared-node/first-wallet-network-changed", "%s row WIF of the first wallet" % sec_name, row[3], net, ctx, ("wif",))


def check_two_networks(case, ctx):
    """A mainnet and a testnet wallet generate at the same time (deterministic line-level interleaving)."""
    from vlib.sched import Scheduler
    import btc_hd_wallet.paper_wallet as mp
    import btc_hd_wallet.wallet_utils as mw
    import btc_hd_wallet.base_wallet as mb
    BaseWallet, PaperWallet = _impl()
    try:
        R.master(case["seed"])
    except R.Invalid:
        return
    wallets = [PaperWallet.from_bip39_seed_bytes(case["seed"], tn) for tn in (False, True)]

    def runner(w):
        def run():
            out = []
            for purpose in case["purposes"]:
                acct, rows = getattr(w, "bip%d" % purpose)(case["account"], (0, 1))
                out.append((purpose, acct, rows))
            return out
        return run
    sched = Scheduler([tuple(x) for x in case["plan"]], [mp.__file__, mw.__file__, mb.__file__])
    results, errors = sched.run([runner(w) for w in wallets])
    ctx.count("switches", sched.switches)
    ctx.nontrivial = sched.switches >= 2
    for t, w in enumerate(wallets):
        if t in errors:
            raise Violation("C16/threads/crashed", "thread %d raised %r" % (t, errors[t]))
        net = NET[bool(w.testnet)]
        for purpose, acct, rows in results[t]:
            want_path = "m/%d'/%d'/%d'" % (purpose, 1 if w.testnet else 0, case["account"])
            if acct["path"] != want_path:
                raise Violation("C16/threads/coin-type", "with a %s wallet generating concurrently, the %snet wallet's BIP%d "
                                "account path is %s, expected %s" % (NET[not w.testnet], net, purpose, acct["path"], want_path))
            tagged("C16/threads/account-key-network", "BIP%d account pub" % purpose, acct["pub"], net, ctx, ("xpub",))
            for row in rows:
                if row[0].split("/")[2] != ("1'" if w.testnet else "0'"):
                    raise Violation("C16/threads/coin-type", "row path %s on the %snet wallet" % (row[0], net))
                tagged("C16/threads/row-network", "row address", row[1], net, ctx)
                tagged("C16/threads/row-network", "row WIF", row[3], net, ctx, ("wif",))


def clauses():
    return [
        Clause("wallet", check_wallet,
               "paper wallet from a seed on a network: every string leaf of the BIP44/49/84 blocks, coin type of every "
               "generated path, node_extended_keys / node-level default extended keys / five addresses / group rows / "
               "WIF for 1..4 generated node paths (incl. m/P'/1'/... on mainnet), Wasabi export key; non-trivial = "
               "testnet wallet or a path whose second component is a coin type of the other network",
               gen=lambda tier: st.fixed_dictionaries({
                   "seed": S.seeds(16, 64), "testnet": st.booleans(),
                   "account": st.one_of(st.sampled_from([0, 1, H - 2]), st.integers(0, H - 2)),
                   "start": st.one_of(st.sampled_from([0, 1, H - 5]), st.integers(0, H - 5)), "rows": st.integers(0, 3),
                   "paths": st.lists(node_paths(), min_size=1, max_size=4),
                   "wform": st.sampled_from(["plain", "plain", "int-flag", "deepcopy", "pickle", "mnemonic-pw"])}),
               nontrivial=lambda c: c["testnet"] or any(len(p) >= 2 and p[1] in (H + 1, 1) for p in c["paths"]),
               classes=lambda c: ["test" if c["testnet"] else "main", "rows=%d" % c["rows"], "wallet:" + c.get("wform", "plain")],
               n={"quick": 220, "thorough": 8000}, shards={"quick": 16, "thorough": 16}),
        Clause("node-flag-mismatch", check_mismatch,
               "PaperWallet(master, testnet) (positional and keyword) where the master node carries the other network's "
               "flag: every wallet-level output (account keys, rows, coin type, node_extended_keys, addresses) follows the "
               "wallet's network", gen=lambda tier: st.fixed_dictionaries({
                   "seed": S.seeds(16, 64), "testnet": st.booleans(), "positional": st.booleans(),
                   "account": st.sampled_from([0, 1, 7])}),
               nontrivial=lambda c: True, n={"quick": 60, "thorough": 3000}, shards={"quick": 12, "thorough": 16}),
        Clause("two-networks-threads", check_two_networks,
               "a mainnet and a testnet wallet over the same seed run bip44/49/84 at the same time under the deterministic "
               "line-level scheduler (paper_wallet.py, wallet_utils.py, base_wallet.py traced): each result carries its own "
               "wallet's coin type and network; non-trivial = >= 2 switches (measured)",
               gen=lambda tier: st.fixed_dictionaries({
                   "seed": S.seeds(16, 64), "account": st.sampled_from([0, 1, 5]),
                   "purposes": st.lists(st.sampled_from([44, 49, 84]), min_size=1, max_size=3),
                   "plan": st.lists(st.tuples(st.integers(0, 1), st.integers(1, 6)), min_size=4, max_size=60)}),
               n={"quick": 160, "thorough": 6000}, shards={"quick": 16, "thorough": 16}),
        Clause("import", check_import,
               "a reference node (depth 0..3) exported under all 12 versions and re-imported: wallet.testnet equals the "
               "prefix's network and every string it emits for its master and a normal child (addresses, default "
               "extended keys, node_extended_keys, rows, Wasabi/generate for depth-0 private imports) carries that "
               "network; every case covers both networks",
               gen=lambda tier: st.fixed_dictionaries({
                   "seed": S.seeds(16, 64), "path": st.lists(st.one_of(st.sampled_from([H + 84, H + 1, H, 0]), S.indexes()), max_size=3),
                   "sub": st.lists(S.normal_indexes(), min_size=1, max_size=2), "paper": st.booleans()}),
               nontrivial=lambda c: True, classes=lambda c: ["depth=%d" % len(c["path"]), "paper" if c["paper"] else "base"],
               n={"quick": 100, "thorough": 5000}, shards={"quick": 16, "thorough": 16}),
        Clause("cli", check_cli,
               "the five sub-commands in process, with and without --testnet / --password / --paranoia: every address, WIF and "
               "extended key in the three address sections of the output and the coin type of the account paths carry the "
               "network asked for (for from-master-xprv: the key's own)",
               gen=lambda tier: st.fixed_dictionaries({
                   "cmd": st.sampled_from(["from-mnemonic", "from-entropy-hex", "new", "from-bip39-seed", "from-master-xprv"]),
                   "seed": S.seeds(16, 16), "testnet": st.booleans(), "paranoia": st.booleans(), "pw": st.sampled_from(["", "", "pw", "p w", "caf\u00e9", "\uff50\uff57", "\ufb01x"]),
                   "stray": st.booleans(),
                   "account": st.sampled_from([0, 1, 9])}),
               nontrivial=lambda c: c["testnet"], classes=lambda c: [c["cmd"], "pw" if c["pw"] else "no-pw", "test" if c["testnet"] else "main"],
               n={"quick": 160, "thorough": 4000}, shards={"quick": 16, "thorough": 16}),
    ]
