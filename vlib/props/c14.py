"""C14 — Watch-only wallets reproduce all public data and can never yield private data."""
from hypothesis import strategies as st

from vlib import strategies as S
from vlib.engine import Clause, Violation
from vlib.ref import b58
from vlib.ref import bip32 as R
from vlib.ref import classify as C
from vlib.util import call, expect_eq
from vlib.props.c05 import expected as addr_expected, judge as addr_judge, KINDS

PROPERTY_ID = "C14"
OPTIMIZED = ['watch-only', 'invalid-child-agreement']   # clauses run a second time under `python -O` (assert statements stripped)
RULE = ("full wallet from a seed; export node at a generated path of depth 0..5 (hardened and normal mixed); the export "
        "string under each of the three public versions of the wallet's network (exhaustive per case; all six over a "
        "run); watch-only Base/Paper wallet built from it after the full wallet has been used in the same process; 1..3 "
        "normal sub-paths requested in a generated order on the same watch-only object")
ASSUMPTIONS = ["'no private data' is checked on returned values and on the watch-only object graph (slots, children, "
               "parents) for the private scalars of the exported subtree"]
H = S.H


def _impl():
    from btc_hd_wallet.base_wallet import BaseWallet
    from btc_hd_wallet.paper_wallet import PaperWallet
    from btc_hd_wallet.bip32 import PrvKeyNode, PubKeyNode
    return BaseWallet, PaperWallet, PrvKeyNode, PubKeyNode


def gen_case(tier):
    sub = st.lists(S.normal_indexes(), max_size=4)
    return st.fixed_dictionaries({
        "seed": S.seeds(16, 64), "testnet": st.booleans(), "paper": st.booleans(),
        "export": st.one_of(st.lists(st.one_of(st.sampled_from([H + 44, H + 49, H + 84, H, H + 1, 0, 1]), S.indexes()), max_size=5),
                            # account-level nodes, the keys people actually export (also under a foreign purpose / normal components)
                            st.tuples(st.sampled_from([H + 44, H + 49, H + 84, H + 7, 7]), st.sampled_from([H, H + 1, 8]),
                                      st.sampled_from([H, H + 1, H + 2, H + 5])).map(list)),
        "subs": st.lists(sub, min_size=1, max_size=3),
        "bulk": st.one_of(st.none(), st.tuples(st.integers(0, 6), st.integers(1, 3))),
    })


def walk(obj, out_bytes, out_strs, seen, depth=0):
    if id(obj) in seen or depth > 12:
        return
    seen.add(id(obj))
    if isinstance(obj, (bytes, bytearray)):
        out_bytes.append(bytes(obj))
        return
    if isinstance(obj, str):
        out_strs.append(obj)
        return
    if isinstance(obj, (int, float, bool)) or obj is None:
        return
    if isinstance(obj, dict):
        for k, v in obj.items():
            walk(k, out_bytes, out_strs, seen, depth + 1)
            walk(v, out_bytes, out_strs, seen, depth + 1)
        return
    if isinstance(obj, (list, tuple, set, frozenset)):
        for v in obj:
            walk(v, out_bytes, out_strs, seen, depth + 1)
        return
    mod = type(obj).__module__ or ""
    if not mod.startswith("btc_hd_wallet"):
        return
    names = []
    for klass in type(obj).__mro__:
        names.extend(getattr(klass, "__slots__", ()) if not isinstance(getattr(klass, "__slots__", ()), str)
                     else [klass.__slots__])
    names.extend(getattr(obj, "__dict__", {}).keys())
    for nme in names:
        try:
            v = getattr(obj, nme)
        except Exception:  # noqa: BLE001
            continue
        walk(v, out_bytes, out_strs, seen, depth + 1)


def no_private_strings(sig, what, value):
    strs, bts = [], []
    walk(value, bts, strs, set())
    for s in strs:
        c = C.classify(s)
        if c["private"] and c["kind"] in ("wif", "xprv", "xkey-unknown-version"):
            raise Violation(sig, "%s contains the private-key encoding %s (%s)" % (what, s, c["kind"]))


def check_case(case, ctx):
    BaseWallet, PaperWallet, Prv, Pub = _impl()
    seed, testnet = case["seed"], case["testnet"]
    try:
        rm = R.master(seed)
        rexp = R.derive(rm, case["export"])
        ref_subs = [R.derive(rexp.neuter(), sub) for sub in case["subs"]]
        priv_subs = [R.derive(rexp, sub) for sub in case["subs"]]
    except R.Invalid:
        return
    cls = PaperWallet if case["paper"] else BaseWallet
    W = cls.from_bip39_seed_bytes(seed, testnet)
    exp_node = W.master.derive_path(list(case["export"]))
    # the full wallet is used first, in the same process
    call(W.node_extended_keys, exp_node)
    call(W.p2wpkh_address, exp_node)
    if case["paper"]:
        call(W.group, [exp_node], W.p2pkh_address)
    secrets = {rexp.k.to_bytes(32, "big"), rm.k.to_bytes(32, "big")} | {p.k.to_bytes(32, "big") for p in priv_subs}
    # the export string as the WALLET hands it out (flavour may follow the path's purpose; network and key material may not vary)
    for how, f in (("node_extended_public_key", lambda: W.node_extended_public_key(exp_node)),
                   ("node_extended_keys()['pub']", lambda: W.node_extended_keys(exp_node)["pub"])):
        st_, xs = call(f)
        if st_ == "exc":
            raise Violation("C14/export/raised", "%s raised %r" % (how, xs))
        cx = C.classify(xs)
        if cx["kind"] != "xpub" or cx["net"] != ("test" if testnet else "main"):
            raise Violation("C14/export/wallet-level-network", "full %snet wallet, node %s: %s = %s is a %snet %s" % (
                "test" if testnet else "main", R.fmt_path(case["export"]), how, xs, cx["net"], cx["kind"]))
        nd = cx["node"]
        if nd.pt != rexp.pt or nd.c != rexp.c or nd.depth != rexp.depth or nd.index != rexp.index or nd.pfp != rexp.pfp:
            raise Violation("C14/export/wallet-level-string", "%s of node %s does not carry that node's public data: %s" % (how, R.fmt_path(case["export"]), xs))
        st_, WO2 = call(cls.from_extended_key, xs)
        if st_ == "exc" or bool(WO2.testnet) != testnet or WO2.watch_only is not True:
            raise Violation("C14/flags/network", "watch-only wallet from the wallet-level export %s: %r" % (xs, WO2 if st_ == "exc" else WO2.testnet))
        if WO2.p2wpkh_address(WO2.master) != W.p2wpkh_address(exp_node):
            raise Violation("C14/address/differs-from-full-wallet", "watch-only wallet from the wallet-level export %s gives another "
                            "P2WPKH address for the export node than the full wallet" % xs)
    for purpose in (44, 49, 84):
        v = R.VERSION_OF[("pub", testnet, purpose)]
        s = exp_node.extended_public_key(version=v)
        if s != b58.encode_check(rexp.payload(v, False)):
            raise Violation("C14/export/string", "export string under version %#x differs from the reference" % v)
        tag = "watch-only %s from %s... (export depth %d)" % (cls.__name__, s[:4], len(case["export"]))
        if purpose == 84:
            # built directly from the parsed node with the network flag passed positionally: (master, testnet)
            st_, WO = call(lambda: cls(Pub.parse(s, testnet), testnet))
        elif purpose == 44 and len(case["subs"]) != 2:
            # the documented stream form, from a stream that holds several 78-byte keys back to back and whose position
            # is at the second one (the first is the root's own public key)
            from io import BytesIO
            stream = BytesIO(rm.payload(v, False) + rexp.payload(v, False) + rm.payload(v, False)[:30])
            stream.read(78)
            st_, WO = call(lambda: cls(Pub.parse(stream, testnet), testnet))
            ctx.count("watch-only-from-stream-at-offset")
        else:
            st_, WO = call(cls.from_extended_key, extended_key=s) if purpose == 49 else call(cls.from_extended_key, s)
        if st_ == "exc":
            raise Violation("C14/import/raised", "%s: from_extended_key raised %r" % (tag, WO))
        if WO.watch_only is not True:
            raise Violation("C14/flags/watch_only", "%s: watch_only = %r" % (tag, WO.watch_only))
        if bool(WO.testnet) != testnet:
            raise Violation("C14/flags/network", "%s: testnet = %r, full wallet %r" % (tag, WO.testnet, testnet))
        if WO.bip85 is not None:
            raise Violation("C14/flags/bip85-offered", "%s offers BIP85 derivation: %r" % (tag, WO.bip85))
        returned = []
        if case["bulk"] is not None:
            st_, kids = call(WO.master.generate_children, (case["bulk"][0], case["bulk"][0] + case["bulk"][1]))
            if st_ == "exc":
                raise Violation("C14/public/raised", "%s generate_children raised %r" % (tag, kids))
            for j, kid in enumerate(kids):
                rk = R.ckd_pub(rexp.neuter(), case["bulk"][0] + j)
                if kid.public_key.sec() != rk.sec() or kid.index != case["bulk"][0] + j:
                    raise Violation("C14/public/bulk-children", "%s: generate_children gave child %d with index %r"
                                    % (tag, j, kid.index))
        st_, kids = call(WO.master.generate_children, (H - 2, H + 2))
        if st_ == "ok":
            raise Violation("C14/private/hardened-derived", "%s: generate_children((2^31-2, 2^31+2)) returned %d nodes incl. "
                            "hardened ones" % (tag, len(kids)))
        for sub, rsub in zip(case["subs"], ref_subs):
            what = "%s sub-path %s" % (tag, R.fmt_path(sub, "M"))
            st_, n_wo = call(WO.master.derive_path, list(sub))
            if st_ == "exc":
                raise Violation("C14/public/raised", "%s: derive_path raised %r" % (what, n_wo))
            n_w = exp_node.derive_path(list(sub))
            expect_eq("C14/public/key", what + " public key", n_wo.public_key.sec(), rsub.sec())
            expect_eq("C14/public/chain-code", what + " chain code", bytes(n_wo.chain_code), rsub.c)
            expect_eq("C14/public/depth", what + " depth", n_wo.depth, rsub.depth)
            expect_eq("C14/public/child-number", what + " child number", n_wo.index, rsub.index)
            expect_eq("C14/public/parent-fingerprint", what + " parent fingerprint", bytes(n_wo.parent_fingerprint), rsub.pfp)
            expect_eq("C14/public/fingerprint", what + " fingerprint", bytes(n_wo.fingerprint()), rsub.fingerprint())
            want_x = rsub.xpub(R.TPUB if testnet else R.XPUB)
            expect_eq("C14/public/xpub", what + " extended_public_key()", n_wo.extended_public_key(), want_x)
            expect_eq("C14/public/xpub-vs-full-wallet", what + " xpub vs full wallet", n_wo.extended_public_key(),
                      n_w.extended_public_key())
            exp_addr = addr_expected(rsub.pt, testnet)
            for kind in KINDS:
                st_, a = call(getattr(WO, kind + "_address"), n_wo)
                if st_ == "exc":
                    raise Violation("C14/address/raised", "%s %s_address raised %r" % (what, kind, a))
                addr_judge("C14/address[%s]" % kind, what + " " + kind, a, exp_addr[kind])
                if a != getattr(W, kind + "_address")(n_w):
                    raise Violation("C14/address/differs-from-full-wallet", "%s %s address differs from the full wallet's" % (what, kind))
            if sub:
                st_, nb = call(WO.by_path, R.fmt_path(sub, "M"))
                if st_ == "exc" or nb.public_key.sec() != rsub.sec():
                    raise Violation("C14/public/by_path", "%s: by_path gave %r" % (what, nb))
            # ---- private requests on this node
            st_, v_ = call(WO.node_extended_private_key, n_wo)
            if st_ == "ok":
                raise Violation("C14/private/node_extended_private_key", "%s returned %r" % (what, v_))
            st_, keys = call(WO.node_extended_keys, n_wo)
            if st_ == "ok":
                returned.append(keys)
                if keys.get("prv") is not None:
                    raise Violation("C14/private/node_extended_keys-prv", "%s: node_extended_keys()['prv'] = %r" % (what, keys.get("prv")))
            for attr in ("private_key", "extended_private_key", "serialize_private", "prv_version"):
                st_, v_ = call(lambda: getattr(n_wo, attr))
                if st_ == "ok" and attr != "prv_version":
                    st2, v2 = call(v_) if callable(v_) else ("ok", v_)
                    if st2 == "ok":
                        raise Violation("C14/private/node-attribute", "%s: node.%s yields %r" % (what, attr, v2))
            if case["paper"]:
                st_, rows = call(WO.group, [n_wo], WO.p2wpkh_address)
                if st_ == "ok":
                    returned.append(rows)
                    if rows[0][-1] is not None:
                        raise Violation("C14/private/group-wif", "%s: group row ends in %r" % (what, rows[0][-1]))
            hard = H + (sub[0] if sub else 0)
            st_, v_ = call(n_wo.ckd, hard)
            if st_ == "ok":
                raise Violation("C14/private/hardened-derived", "%s: ckd(%d) returned a node" % (what, hard))
        st_, keys = call(WO.node_extended_keys, WO.master)
        if st_ == "ok":
            returned.append(keys)
            if keys.get("prv") is not None:
                raise Violation("C14/private/node_extended_keys-prv", "%s: node_extended_keys(master)['prv'] = %r" % (tag, keys.get("prv")))
        st_, v_ = call(WO.by_path, "m/0'")
        if st_ == "ok":
            raise Violation("C14/private/hardened-derived", "%s: by_path(\"m/0'\") returned %r" % (tag, v_))
        # every spelling of a hardened component a path parser might take: a node must never come back from a watch-only wallet
        for spelled in ("M/0'", "M/0h", "M/0H", "m/1/7H", "M/3H/4", "M/2147483647h", "M/0/0'", "M/5'/0"):
            st_, v_ = call(WO.by_path, spelled)
            if st_ == "ok" and v_ is not None:
                raise Violation("C14/private/hardened-derived[path-spelling]", "%s: by_path(%r) returned the node %r instead of refusing a "
                                "hardened component" % (tag, spelled, v_))
        # the address generator reaches the last non-hardened child (index 2^31 - 1) like any other
        rlast = None
        try:
            rlast = R.ckd_pub(rexp.neuter(), H - 1)
        except R.Invalid:
            pass
        if rlast is not None and purpose == 49:
            g = WO.address_generator(WO.master, WO.p2wpkh_address)
            st_, got = call(lambda: (next(g), g.send(H - 1))[1])
            g.close()
            want_addr = addr_expected(rlast.pt, testnet)["p2wpkh"]
            if st_ == "exc":
                raise Violation("C14/address/generator-last-index", "%s: address generator advanced to index 2^31-1 raised %r" % (tag, got))
            addr_judge("C14/address/generator-last-index", "%s: address generator advanced to index 2^31-1 (%r)" % (tag, got), got[1], want_addr)
        if case["paper"]:
            st_, v_ = call(WO.generate)
            if st_ == "ok":
                raise Violation("C14/private/generate", "%s: generate() returned a record" % tag)
            # the account sections start with three hardened levels below the wallet's root, whatever that root is
            last = case["export"][-1] if case["export"] else 0
            for acct in sorted({0, last - H if last >= H else 0}):
                for meth in ("bip44", "bip49", "bip84"):
                    st_, v_ = call(getattr(WO, meth), acct) if acct & 1 else call(getattr(WO, meth), account=acct)
                    if st_ == "ok":
                        raise Violation("C14/private/hardened-derived[account-section]", "%s (export node %s): %s(account=%d) returned %r "
                                        "instead of refusing the hardened levels" % (tag, R.fmt_path(case["export"]), meth, acct, v_))
        # nothing returned, and nothing reachable from the watch-only object, holds private material
        no_private_strings("C14/private/returned-private-string", tag + " returned value", returned)
        bts, strs = [], []
        walk(WO, bts, strs, set())
        for b in bts:
            if b in secrets or (len(b) == 33 and b[0] == 0 and b[1:] in secrets):
                raise Violation("C14/private/scalar-in-object-graph", "%s: private scalar %s... reachable from the watch-only wallet" % (tag, b.hex()[:16]))
        for s2 in strs:
            c = C.classify(s2)
            if c["private"] and c["kind"] in ("wif", "xprv"):
                raise Violation("C14/private/string-in-object-graph", "%s: %s reachable from the watch-only wallet" % (tag, s2))


def nt_case(case):
    return len(case["export"]) >= 1 or any(len(s) >= 1 for s in case["subs"])


def classes_case(case):
    return ["export-depth=%d" % len(case["export"]), "test" if case["testnet"] else "main",
            "paper" if case["paper"] else "base", "subs=%d" % len(case["subs"])]


def gen_invalid(tier):
    return st.fixed_dictionaries({"seed": S.seeds(16, 64), "testnet": st.booleans(), "i": S.normal_indexes(),
                                  "kind": st.sampled_from(["n", "n+1", "max", "ge-n", "n-k", "valid"]), "u": st.integers(0, 2 ** 256 - 1)})


def check_invalid_agreement(case, ctx):
    """Whatever the (substituted) PRF returns for a normal child: the watch-only wallet yields that child exactly when
    the full wallet does."""
    from vlib import patch
    BaseWallet, PaperWallet, Prv, Pub = _impl()
    try:
        rm = R.master(case["seed"])
    except R.Invalid:
        return
    N_ = S.N
    il = {"n": N_, "n+1": N_ + 1, "max": 2 ** 256 - 1, "ge-n": N_ + case["u"] % (2 ** 256 - N_), "n-k": (N_ - rm.k) % N_,
          "valid": 1 + case["u"] % (N_ - 1)}[case["kind"]]
    out = il.to_bytes(32, "big") + b"\x22" * 32
    W = BaseWallet.from_bip39_seed_bytes(case["seed"] + S.case_salt(case, 4), case["testnet"])
    WO = BaseWallet.from_extended_key(W.master.extended_public_key())
    outcomes = []
    for name, node in (("full", W.master), ("watch-only", WO.master)):
        stub = patch.ScriptedPRF({j: out for j in range(6)})
        with patch.prf(stub):
            st_, ch = call(node.ckd, case["i"])
        if not stub.calls:
            ctx.count("prf-substitution-not-effective: not judged")
            return
        outcomes.append((name, st_, ch.public_key.sec() if st_ == "ok" else None))
    (n1, s1, k1), (n2, s2, k2) = outcomes
    if s1 != s2 or k1 != k2:
        raise Violation("C14/public/invalid-child-disagreement", "child %d with PRF output IL=%#x (%s): the full wallet %s, the "
                        "watch-only wallet %s" % (case["i"], il, case["kind"], "raises" if s1 == "exc" else "returns " + k1.hex(),
                                                  "raises" if s2 == "exc" else "returns " + k2.hex()))


# ---------------------------------------------------------------------------------------------- several threads
def gen_threads(tier):
    from vlib import threads as T
    req = st.tuples(st.lists(S.normal_indexes(), min_size=1, max_size=3), st.sampled_from(KINDS + ["xpub"]))
    return st.fixed_dictionaries({
        "seed": S.seeds(16, 32), "testnet": st.booleans(),
        "export": st.lists(st.one_of(st.sampled_from([H + 84, H, H + 1, 0, 1]), S.indexes()), max_size=3),
        "threads": st.lists(st.lists(req, min_size=1, max_size=2), min_size=2, max_size=3),
        "plan": T.plans(max_run=8)})


def check_threads(case, ctx):
    """2..3 threads use ONE watch-only wallet (one public master node) at once under the deterministic scheduler: each
    sub-path's public key, chain code, metadata and requested address / xpub must equal the reference."""
    from vlib import threads as T
    BaseWallet, PaperWallet, Prv, Pub = _impl()
    testnet = case["testnet"]
    try:
        rexp = R.derive(R.master(case["seed"]), case["export"])
    except R.Invalid:
        return
    WO = BaseWallet.from_extended_key(rexp.xpub(R.TPUB if testnet else R.XPUB))

    def runner(reqs):
        def run():
            out = []
            for sub, what in reqs:
                def one():
                    n = WO.master.derive_path(list(sub))
                    val = n.extended_public_key() if what == "xpub" else getattr(WO, what + "_address")(n)
                    return [n.public_key.sec(), bytes(n.chain_code), n.depth, n.index, bytes(n.parent_fingerprint), val]
                out.append(call(one))
            return out
        return run
    results, errors = T.run_scheduled(case["plan"], [runner(r) for r in case["threads"]],
                                      T.library_files("bip32", "keys", "helper", "base_wallet", "script", "bech32"), ctx)
    for t, reqs in enumerate(case["threads"]):
        if t in errors:
            raise Violation("C14/threads/crashed", "thread %d raised %r" % (t, errors[t]))
        for (sub, what), (st_, got) in zip(reqs, results[t]):
            try:
                rsub = R.derive(rexp.neuter(), sub)
            except R.Invalid:
                continue
            tag = "with %d threads on one watch-only wallet, sub-path %s (%s)" % (len(case["threads"]), R.fmt_path(sub, "M"), what)
            if st_ == "exc":
                raise Violation("C14/threads/raised", "%s raised %r" % (tag, got))
            want = [rsub.sec(), rsub.c, rsub.depth, rsub.index, rsub.pfp]
            if got[:5] != want:
                raise Violation("C14/threads/public-data-differs", "%s: node is %r, the full wallet's node is %r" % (
                    tag, [x.hex() if isinstance(x, bytes) else x for x in got[:5]], [x.hex() if isinstance(x, bytes) else x for x in want]))
            if what == "xpub":
                expect_eq("C14/threads/xpub", tag, got[5], rsub.xpub(R.TPUB if testnet else R.XPUB))
            else:
                addr_judge("C14/threads/address[%s]" % what, tag, got[5], addr_expected(rsub.pt, testnet)[what])


def enum_deep(tier):
    for d, testnet in ((128, False), (200, True), (255 - 4, False)):
        yield {"seed": bytes([d]) * 16, "testnet": testnet, "paper": bool(d & 1),
               "export": [H + 44, H, 7] + [1] * (d - 3), "subs": [[0], [2, 1]], "bulk": None}
    # the last levels a node can have: children of depth 254 and 255 are still serialisable public data
    yield {"seed": b"\x53" * 16, "testnet": True, "paper": False, "export": [H + 84, H + 1, 3] + [2] * 250, "subs": [[0], [2, 1], [H - 1]], "bulk": (0, 2)}
    yield {"seed": b"\x54" * 16, "testnet": False, "paper": True, "export": [H + 49, H, 3] + [1] * 251, "subs": [[5]], "bulk": None}


def clauses():
    return [
        Clause("invalid-child-agreement", check_invalid_agreement,
               "a normal child whose (substituted) PRF output is IL in {n, n+1, 2^256-1, >= n, n - k} or valid: the watch-only "
               "wallet must raise exactly when the full wallet raises, and return the same public key otherwise",
               gen=gen_invalid, classes=lambda c: [c["kind"]], n={"quick": 400, "thorough": 20000}, shards={"quick": 8, "thorough": 16}),
        Clause("threads", check_threads,
               "2..3 threads derive 1..2 normal sub-paths each from ONE watch-only wallet and ask for an address kind or the "
               "xpub, under the deterministic line-granularity scheduler; public key, chain code, depth, child number, "
               "parent fingerprint and the string against the reference (= the full wallet); non-trivial = >= 2 switches",
               gen=gen_threads, n={"quick": 300, "thorough": 10000}, shards={"quick": 16, "thorough": 16}),
        Clause("watch-only", check_case,
               "per case all three public versions of the network; flags (watch_only, network, no BIP85); for each "
               "sub-path: key, chain code, depth, child number, fingerprints, xpub, five addresses vs reference and vs the "
               "full wallet; private requests raise or give None (node_extended_private_key, node_extended_keys, group "
               "rows, node attributes, hardened ckd/by_path, generate); object-graph scan for private scalars/strings; "
               "non-trivial = export depth >= 1 or a non-empty sub-path",
               gen=gen_case, enum=enum_deep, enum_desc="export nodes at depth 128, 200, 251",
               nontrivial=nt_case, classes=classes_case,
               n={"quick": 600, "thorough": 12000}, shards={"quick": 16, "thorough": 16}),
    ]
