"""C03 — Mnemonic + passphrase -> seed -> master key follows BIP39/BIP32 for all text."""
import unicodedata

from hypothesis import strategies as st

from vlib import strategies as S
from vlib.engine import Clause, Violation
from vlib.ref import bip32 as R
from vlib.ref import bip39 as R39
from vlib.util import call, expect_eq

PROPERTY_ID = "C03"
OPTIMIZED = ['text', 'seed', 'constructors']   # clauses run a second time under `python -O` (assert statements stripped)
RULE = ("mnemonic and passphrase strings from all of Unicode, from a curated alphabet where NFKD is not the identity "
        "(precomposed Latin, compatibility forms, Hangul, CJK compatibility, U+3000, combining marks) and from real "
        "sentences; seeds of 0..128 bytes incl. leading-zero seeds; oracle = explicit 2048-round PBKDF2 loop over "
        "hmac and HMAC-SHA512('Bitcoin seed')")
ASSUMPTIONS = ["unicodedata's NFKD tables are shared with the implementation: an omitted or different normalisation "
               "form is detected, an error inside the tables is not",
               "strings contain no lone surrogates (they cannot be UTF-8 encoded)"]


def _impl():
    from btc_hd_wallet import bip39
    from btc_hd_wallet.base_wallet import BaseWallet
    from btc_hd_wallet.paper_wallet import PaperWallet
    from btc_hd_wallet.bip32 import PrvKeyNode
    return bip39, BaseWallet, PaperWallet, PrvKeyNode


def sentences():
    ent = st.sampled_from([16, 20, 24, 28, 32]).flatmap(lambda n: st.binary(min_size=n, max_size=n))
    def shape(e, sep, style):
        s = R39.encode(e)
        s = {0: s, 1: s.upper(), 2: s.title(), 3: s.capitalize(), 4: s.swapcase(),
             5: "".join(chr(ord(c) + 0xFEE0) if c != " " else c for c in s.upper())}[style]   # 5: full-width capitals
        return s.replace(" ", sep)
    return st.builds(shape, ent, st.sampled_from([" ", " ", "　", " "]), st.sampled_from([0, 0, 0, 1, 2, 3, 4, 5]))


def long_texts():
    # UTF-8 lengths around the HMAC-SHA512 block size (128 bytes: longer keys are hashed first) and well beyond it
    ascii_ = st.sampled_from([63, 64, 65, 127, 128, 129, 130, 255, 256, 257, 1000]).flatmap(
        lambda n: st.text(alphabet="abcdefghijklmnopqrstuvwxyz ", min_size=n, max_size=n))
    return st.one_of(ascii_, S.unicode_text(200))


def surrogate_texts():
    # what sys.argv / os.fsdecode produce for bytes that are not UTF-8 (U+DC80..U+DCFF), and other lone surrogates
    sur = st.one_of(st.integers(0xDC80, 0xDCFF), st.integers(0xD800, 0xDFFF)).map(chr)
    return st.builds(lambda a, x, b: a + x + b, st.text(alphabet="abc é", max_size=6), sur, st.text(alphabet="xyz\udcc3\udca9", max_size=4))


def spec_word_texts():
    # passphrases / sentences that start with, equal or contain the literal strings the specification itself uses
    words = ["mnemonic", "\uff4d\uff4e\uff45\uff4d\uff4f\uff4e\uff49\uff43", "Bitcoin seed", "mnemonicmnemonic", "MNEMONIC", "mnemoni",
             "bip-entropy-from-k", "TREZOR"]
    return st.builds(lambda a, w, b: a + w + b, st.sampled_from(["", "", " ", "x"]), st.sampled_from(words),
                     st.one_of(st.just(""), st.text(alphabet="abc #2\u00e9", max_size=8)))


def texts():
    return st.one_of(spec_word_texts(), S.unicode_text(), S.unicode_text(40), sentences(), st.just(""), long_texts(),
                     S.unicode_text(), S.unicode_text(40), sentences(), surrogate_texts())


def master_matches(sig, what, node, ref, testnet):
    expect_eq(sig + "/master-key", what + " master key", int.from_bytes(bytes(node.private_key), "big"), ref.k)
    expect_eq(sig + "/chain-code", what + " master chain code", bytes(node.chain_code), ref.c)
    if node.depth != 0 or node.index != 0:
        raise Violation(sig + "/metadata", "%s: master depth/index %r/%r" % (what, node.depth, node.index))
    want = ref.xprv(R.TPRV if testnet else R.XPRV)
    st_, s = call(node.extended_private_key)
    if st_ == "exc" or s != want:
        raise Violation(sig + "/xprv-string", "%s extended_private_key() = %r, expected %s" % (what, s, want))


def check_text(case, ctx):
    bip39, BaseWallet, PaperWallet, Prv = _impl()
    m, pw, testnet = case["m"], case["pw"], case["testnet"]
    try:
        want = R39.seed(m, pw)
    except UnicodeEncodeError:
        # not text: a str holding lone surrogate code points has no UTF-8 form, so BIP39 defines no seed for it.  The only
        # acceptable outcome is an error - never key material made from some other byte string
        ctx.count("unencodable-str (lone surrogate)")
        for what, f in (("bip39_seed_from_mnemonic", lambda: bip39.bip39_seed_from_mnemonic(m, pw)),
                        ("from_mnemonic", lambda: (PaperWallet if case["paper"] else BaseWallet).from_mnemonic(m, pw, testnet).master.extended_private_key())):
            st_, got = call(f)
            if st_ == "ok":
                raise Violation("C03/seed/unencodable-text-accepted", "%s(%r, %r): the text has no UTF-8 encoding (lone surrogate), yet "
                                "key material %r was produced" % (what, m, pw, got.hex() if isinstance(got, bytes) else got))
        return
    st_, got = call(bip39.bip39_seed_from_mnemonic, mnemonic=m, password=pw) if case["paper"] else \
        call(bip39.bip39_seed_from_mnemonic, m, pw)
    if st_ == "exc":
        raise Violation("C03/seed/raised", "bip39_seed_from_mnemonic(%r, %r) raised %r" % (m, pw, got))
    if got != want:
        nm, npw = unicodedata.normalize("NFKD", m) != m, unicodedata.normalize("NFKD", pw) != pw
        raise Violation("C03/seed/differs[%s]" % ("nfkd-sensitive" if (nm or npw) else "plain"),
                        "seed(%r, %r) = %s, expected %s" % (m, pw, got.hex(), want.hex()))
    for m2, pw2 in ((m + pw[:1], pw[1:]), (m[:-1], m[-1:] + pw)):
        if (m2, pw2) == (m, pw):
            continue
        st_, got2 = call(bip39.bip39_seed_from_mnemonic, m2, pw2)
        if st_ == "exc" or got2 != R39.seed(m2, pw2):
            raise Violation("C03/seed/differs-after-related-call", "seed(%r, %r) right after seed(%r, %r) = %r, expected %s"
                            % (m2, pw2, m, pw, got2 if st_ == "exc" else got2.hex(), R39.seed(m2, pw2).hex()))
    if pw == "":
        st_, got = call(bip39.bip39_seed_from_mnemonic, m)
        if st_ == "exc" or got != want:
            raise Violation("C03/seed/default-passphrase", "seed(%r) with default passphrase differs" % (m,))
    try:
        rm = R.master(want)
    except R.Invalid:
        return
    cls = PaperWallet if case["paper"] else BaseWallet
    st_, w = call(cls.from_mnemonic, mnemonic=m, password=pw, testnet=testnet) if testnet else call(cls.from_mnemonic, m, pw, testnet)
    if st_ == "exc":
        raise Violation("C03/wallet/raised", "from_mnemonic(%r, %r) raised %r" % (m, pw, w))
    master_matches("C03/wallet", "from_mnemonic(%r, %r, testnet=%s)" % (m, pw, testnet), w.master, rm, testnet)
    if bool(w.testnet) != testnet:
        raise Violation("C03/wallet/network-flag", "wallet.testnet = %r" % (w.testnet,))


def nt_text(case):
    return unicodedata.normalize("NFKD", case["m"]) != case["m"] or unicodedata.normalize("NFKD", case["pw"]) != case["pw"]


def classes_text(case):
    m, pw = case["m"], case["pw"]
    out = []
    for name, s in (("m", m), ("pw", pw)):
        nfkd = unicodedata.normalize("NFKD", s)
        if nfkd == s:
            out.append(name + ":nfkd-identity")
        elif unicodedata.normalize("NFD", s) == s:
            out.append(name + ":compat-only(NFD-stable)")
        elif unicodedata.normalize("NFKC", s) == nfkd:
            out.append(name + ":nfkc==nfkd")
        else:
            out.append(name + ":nfkd-changes")
    if pw == "":
        out.append("empty-passphrase")
    return out


# ------------------------------------------------------------------------------------ seeds -> master
def gen_seed(tier):
    return st.fixed_dictionaries({
        "seed": st.one_of(st.binary(max_size=128), st.binary(min_size=64, max_size=64),
                          st.builds(lambda z, t: (b"\x00" * z + t)[:128], st.integers(1, 8), st.binary(max_size=120)),
                          st.builds(lambda t, z: t + b"\x00" * z, st.binary(max_size=100), st.integers(1, 8)),
                          # raw seeds whose bytes happen to be ASCII hex digits / whitespace
                          st.text(alphabet="0123456789abcdefABCDEF", min_size=2, max_size=64).map(lambda t: t.encode()),
                          st.text(alphabet="0123456789abcdef \n", min_size=1, max_size=32).map(lambda t: t.encode())),
        "testnet": st.booleans()})


def check_seed(case, ctx):
    bip39, BaseWallet, PaperWallet, Prv = _impl()
    seed, testnet = case["seed"], case["testnet"]
    try:
        rm = R.master(seed)
    except R.Invalid:
        return
    routes = [
        ("PrvKeyNode.master_key", lambda: Prv.master_key(seed, testnet)),
        ("from_bip39_seed_bytes", lambda: BaseWallet.from_bip39_seed_bytes(seed, testnet).master),
        ("from_bip39_seed_hex(lower)", lambda: BaseWallet.from_bip39_seed_hex(seed.hex(), testnet).master),
        ("from_bip39_seed_hex(upper)", lambda: PaperWallet.from_bip39_seed_hex(seed.hex().upper(), testnet).master),
    ]
    for name, f in routes:
        st_, node = call(f)
        if st_ == "exc":
            raise Violation("C03/seed-route/raised", "%s(%d-byte seed %s..) raised %r" % (name, len(seed), seed[:6].hex(), node))
        master_matches("C03/seed-route[%s]" % name.split("(")[0], "%s(%d-byte seed %s..)" % (name, len(seed), seed[:6].hex()),
                       node, rm, testnet)
    # the network flag never changes key material
    a = Prv.master_key(seed, False)
    b = Prv.master_key(seed, True)
    if bytes(a.key) != bytes(b.key) or a.chain_code != b.chain_code:
        raise Violation("C03/network/key-material", "testnet flag changed the master key material")


def nt_seed(case):
    s = case["seed"]
    return len(s) != 64 or s[:1] == b"\x00" or s[-1:] == b"\x00"


# ------------------------------------------------------------------------------------ constructors agree
def gen_ctor(tier):
    ent = st.sampled_from([16, 20, 24, 28, 32]).flatmap(lambda n: st.one_of(
        st.binary(min_size=n, max_size=n), st.just(b"\x00" * n), st.just(b"\xff" * n)))
    return st.fixed_dictionaries({"entropy": ent, "pw": st.one_of(st.just(""), S.unicode_text(12), spec_word_texts()), "testnet": st.booleans()})


def check_ctor(case, ctx):
    bip39, BaseWallet, PaperWallet, Prv = _impl()
    e, pw, testnet = case["entropy"], case["pw"], case["testnet"]
    sentence = R39.encode(e)
    seed = R39.seed(sentence, pw)
    try:
        rm = R.master(seed)
    except R.Invalid:
        return
    vprv = R.TPRV if testnet else R.XPRV
    routes = [
        ("from_entropy_hex", lambda: BaseWallet.from_entropy_hex(e.hex(), pw, testnet)),
        ("from_entropy_hex(upper)", lambda: PaperWallet.from_entropy_hex(e.hex().upper(), pw, testnet)),
        ("from_mnemonic", lambda: BaseWallet.from_mnemonic(sentence, pw, testnet)),
        ("from_bip39_seed_bytes", lambda: BaseWallet.from_bip39_seed_bytes(seed, testnet)),
        ("from_bip39_seed_hex", lambda: BaseWallet.from_bip39_seed_hex(seed.hex(), testnet)),
        ("from_extended_key", lambda: BaseWallet.from_extended_key(rm.xprv(vprv))),
        ("PaperWallet.from_extended_key", lambda: PaperWallet.from_extended_key(rm.xprv(vprv))),
    ]
    # hex written in groups (white space between or around the bytes is what bytes.fromhex skips): a layout may be refused,
    # but an accepted one denotes exactly these entropy bytes
    hx = e.hex()
    for label, txt in (("4-digit groups + newline", " ".join(hx[j:j + 4] for j in range(0, len(hx), 4)) + "\n"),
                       ("byte pairs", " ".join(hx[j:j + 2] for j in range(0, len(hx), 2))),
                       ("leading space + 8-digit groups", " " + " ".join(hx[j:j + 8] for j in range(0, len(hx), 8)))):
        st_, wg = call(BaseWallet.from_entropy_hex, txt, pw, testnet)
        if st_ == "exc":
            ctx.count("grouped-hex-refused (not judged)")
            continue
        ctx.count("grouped-hex-accepted")
        master_matches("C03/constructor[from_entropy_hex-grouped]", "from_entropy_hex(%r) [%s]" % (txt, label), wg.master, rm, testnet)
    wallets = []
    for name, f in routes:
        st_, w = call(f)
        if st_ == "exc":
            raise Violation("C03/constructor/raised", "%s raised %r (entropy %s)" % (name, w, e.hex()))
        master_matches("C03/constructor[%s]" % name.split("(")[0], "%s (entropy %s, pw %r)" % (name, e.hex(), pw),
                       w.master, rm, testnet)
        if bool(w.testnet) != testnet:
            raise Violation("C03/constructor/network-flag", "%s wallet.testnet=%r" % (name, w.testnet))
        wallets.append(w)
    if not all(wallets[0] == w for w in wallets[1:]):
        raise Violation("C03/constructor/wallets-unequal", "wallets from the constructors are not == each other")
    if not isinstance(wallets[0].mnemonic, str) or R39.decode(wallets[0].mnemonic) != (e, True):
        raise Violation("C03/constructor/mnemonic", "from_entropy_hex(...).mnemonic = %r does not encode the entropy" % (wallets[0].mnemonic,))
    # the other network: same key material, other version bytes only
    st_, w2 = call(BaseWallet.from_mnemonic, sentence, pw, not testnet)
    if st_ == "exc":
        raise Violation("C03/constructor/raised", "from_mnemonic on the other network raised %r" % (w2,))
    master_matches("C03/network", "same mnemonic on the other network", w2.master, rm, not testnet)


def gen_new(tier):
    return st.fixed_dictionaries({"words": st.sampled_from([12, 15, 18, 21, 24]), "pw": st.one_of(st.just(""), S.unicode_text(8), spec_word_texts()),
                                  "testnet": st.booleans(), "route": st.integers(0, 5)})


def check_new(case, ctx):
    bip39, BaseWallet, PaperWallet, Prv = _impl()
    # every entry point that creates a wallet from fresh entropy, positional and keyword
    bits = case["words"] * 32 // 3
    route = case.get("route", 0) % 6
    cls = PaperWallet if route % 2 else BaseWallet
    if route in (0, 1):
        st_, w = call(cls.new_wallet, case["words"], case["pw"], case["testnet"])
    elif route in (2, 3):
        st_, w = call(cls.from_entropy_bits, bits, case["pw"], case["testnet"])
    else:
        st_, w = call(cls.from_entropy_bits, entropy_bits=bits, password=case["pw"], testnet=case["testnet"])
    ctx.count("route:%s.%s" % (cls.__name__, "new_wallet" if route < 2 else "from_entropy_bits"))
    if st_ == "exc":
        raise Violation("C03/new/raised", "new_wallet raised %r" % (w,))
    if not isinstance(w.mnemonic, str) or len(w.mnemonic.split(" ")) != case["words"]:
        raise Violation("C03/new/echo", "new_wallet(%d).mnemonic = %r, password %r" % (case["words"], w.mnemonic, w.password))
    dec = R39.decode(w.mnemonic)
    if dec is None or not dec[1]:
        raise Violation("C03/new/invalid-sentence", "new_wallet produced an invalid sentence %r" % (w.mnemonic,))
    seed = R39.seed(w.mnemonic, case["pw"])
    try:
        rm = R.master(seed)
    except R.Invalid:
        return
    master_matches("C03/new", "new_wallet(%d words, pw %r)" % (case["words"], case["pw"]), w.master, rm, case["testnet"])
    # (literal echo is C06's clause; here only "another passphrase than the one given" is judged, up to NFKD)
    if unicodedata.normalize("NFKD", w.password or "") != unicodedata.normalize("NFKD", case["pw"]):
        raise Violation("C03/new/echo", "the wallet records passphrase %r, it was created with %r" % (w.password, case["pw"]))
    st_, w2 = call(BaseWallet.from_mnemonic, w.mnemonic, w.password, case["testnet"])
    if st_ == "exc" or not (w2 == w):
        raise Violation("C03/new/not-reproducible", "from_mnemonic(w.mnemonic, w.password) != w")


CLI_COMMANDS = ("from-mnemonic", "from-entropy-hex", "from-bip39-seed", "from-master-xprv")


def gen_cli(tier):
    ent = st.sampled_from([16, 20, 24, 28, 32]).flatmap(lambda n: st.binary(min_size=n, max_size=n))
    return st.fixed_dictionaries({"cmd": st.sampled_from(["from-mnemonic", "from-entropy-hex", "from-bip39-seed", "from-master-xprv"]),
                                  "entropy": ent, "pw": st.one_of(st.just(""), st.text(alphabet="abcXYZ019 é", min_size=1, max_size=8)),
                                  "seed": st.binary(min_size=64, max_size=64), "testnet": st.booleans(),
                                  "pw_form": st.sampled_from(PW_FORMS), "testnet_pos": st.sampled_from(["front", "front", "after-command", "end"])})


# where and how the one passphrase option is written; the command may refuse a spelling (non-zero status, not judged),
# but an accepted command line must build the wallet of the passphrase it was given
PW_FORMS = ["after=", "after=", "after-two-tokens", "between-command-and-secret", "before-command=", "before-command-two-tokens",
            "abbreviated"]


def place_password(form, cmd_tokens, pw):
    """cmd_tokens = [command, secret]; -> argv tail."""
    if not pw:
        return list(cmd_tokens)
    two = not pw.startswith("-")
    if form == "after-two-tokens" and two:
        return cmd_tokens + ["--password", pw]
    if form == "between-command-and-secret":
        return cmd_tokens[:1] + ["--password=" + pw] + cmd_tokens[1:]
    if form == "before-command=":
        return ["--password=" + pw] + cmd_tokens
    if form == "before-command-two-tokens" and two:
        return ["--password", pw] + cmd_tokens
    if form == "abbreviated":
        return cmd_tokens + ["--pass=" + pw]
    return cmd_tokens + ["--password=" + pw]


def check_cli(case, ctx):
    """The command-line constructors hold the same master key material: the BIP44 account key printed by the CLI is
    the reference derivation m/44'/c'/0' of the reference master."""
    import json
    from vlib import cli
    cmd, pw, testnet = case["cmd"], case["pw"], case["testnet"]
    sentence = R39.encode(case["entropy"])
    if cmd == "from-mnemonic":
        seed, argv = R39.seed(sentence, pw), place_password(case.get("pw_form", "after="), ["from-mnemonic", sentence], pw)
    elif cmd == "from-entropy-hex":
        seed, argv = R39.seed(sentence, pw), place_password(case.get("pw_form", "after="), ["from-entropy-hex", case["entropy"].hex()], pw)
    elif cmd == "from-bip39-seed":
        seed, argv = case["seed"], ["from-bip39-seed", case["seed"].hex()]
    else:
        seed = case["seed"]
    try:
        rm = R.master(seed)
    except R.Invalid:
        return
    if cmd == "from-master-xprv":
        argv = ["from-master-xprv", rm.xprv(R.TPRV if testnet else R.XPRV)]
    tpos = case.get("testnet_pos", "front") if testnet else "front"
    if tpos == "after-command" and argv[0] in CLI_COMMANDS:
        argv = argv[:1] + ["--testnet"] + argv[1:]
    elif tpos == "end":
        argv = argv + ["--testnet"]
    elif testnet:
        argv = ["--testnet"] + argv
    argv = ["--interval", "0", "0"] + argv
    r = cli.run_main(argv)
    if r["status"] != 0:
        ctx.count("cli-rejected[pw %s, --testnet %s]" % (case.get("pw_form", "after=") if pw and cmd in ("from-mnemonic", "from-entropy-hex") else "-", tpos))
        return
    ctx.count("cli-accepted[pw %s, --testnet %s]" % (case.get("pw_form", "after=") if pw and cmd in ("from-mnemonic", "from-entropy-hex") else "-", tpos))
    try:
        data = json.loads(r["out"])
        got = data["BIP44"]["account_extended_keys"]["prv"]
    except Exception as e:  # noqa: BLE001
        raise Violation("C03/cli/output", "CLI %r printed no BIP44 account key: %r" % (argv[-2:], e))
    H_ = 2 ** 31
    racct = R.derive(rm, [44 + H_, (1 if testnet else 0) + H_, H_])
    want = racct.xprv(R.TPRV if testnet else R.XPRV)
    if got != want:
        raise Violation("C03/cli/master-key-material[%s]" % cmd, "CLI %s (passphrase %r, testnet=%s): account key %s, the "
                        "reference master gives %s" % (cmd, pw, testnet, got, want))


# ------------------------------------------------------------------------------------ first use from several threads
def _cold_build(it):
    from vlib.cold import enc
    kind, ent, pw, seed = it
    if kind == "seed":
        m = R39.encode(ent)
        return (["bip39", "bip39_seed_from_mnemonic", [m, pw]], enc(R39.seed(m, pw)), "bip39_seed_from_mnemonic(%r, %r)" % (m[:20], pw))
    try:
        want = R.master(seed).xprv(R.XPRV)
    except R.Invalid:
        want = None
    return (["bip32", "PrvKeyNode.master_key", [{"hex": seed.hex()}], [["extended_private_key", []]]], want,
            "master_key(%s).extended_private_key()" % seed.hex()[:16])


def clauses():
    return [
        Clause("text", check_text,
               "arbitrary Unicode mnemonic and passphrase: seed against the explicit PBKDF2 loop, then from_mnemonic's "
               "master key/chain code/xprv string against HMAC-SHA512('Bitcoin seed'); non-trivial = NFKD changes the "
               "mnemonic or the passphrase; classes separate compatibility-only (NFD-stable) text",
               gen=lambda tier: st.fixed_dictionaries({"m": texts(), "pw": texts(), "testnet": st.booleans(),
                                                       "paper": st.booleans()}),
               nontrivial=nt_text, classes=classes_text,
               n={"quick": 2500, "thorough": 60000}, shards={"quick": 16, "thorough": 16}),
        Clause("seed", check_seed,
               "seeds of 0..128 bytes (uniform, leading and trailing zero bytes) through master_key, "
               "from_bip39_seed_bytes and from_bip39_seed_hex (lower/upper): same master as the reference on both "
               "networks; non-trivial = length != 64 or a zero byte at either end",
               gen=gen_seed, nontrivial=nt_seed,
               classes=lambda c: ["leading-zero" if c["seed"][:1] == b"\x00" else "other", "len64" if len(c["seed"]) == 64 else "len-other"],
               n={"quick": 2500, "thorough": 60000}, shards={"quick": 16, "thorough": 16}),
        Clause("constructors", check_ctor,
               "entropy (5 sizes) + passphrase + network: from_entropy_hex, from_mnemonic, from_bip39_seed_bytes/hex, "
               "from_extended_key (Base and Paper wallet) hold the reference master key material and print its xprv; "
               "flipping the network changes version bytes only",
               gen=gen_ctor, nontrivial=lambda c: c["pw"] != "" or c["testnet"],
               n={"quick": 600, "thorough": 30000}, shards={"quick": 16, "thorough": 16}),
        Clause("cli-constructors", check_cli,
               "the four command-line constructors (mnemonic / entropy hex with passphrase, seed hex, master xprv) in "
               "process, the passphrase option and --testnet written in every position and spelling argparse could "
               "accept (after / between / before the command, one or two tokens, abbreviated): a refused command line is "
               "not judged, an accepted one must print the BIP44 account key of the reference master for exactly the "
               "passphrase and network given",
               gen=gen_cli, nontrivial=lambda c: c["pw"] != "" or c["testnet"],
               classes=lambda c: [c["cmd"], "pw" if c["pw"] else "no-pw"],
               n={"quick": 192, "thorough": 4000}, shards={"quick": 16, "thorough": 16}),
        Clause("new-wallet", check_new,
               "new_wallet(words, passphrase, network): valid sentence, master equals the reference derivation of the "
               "sentence it reports, from_mnemonic(w.mnemonic, w.password) reproduces it",
               gen=gen_new, nontrivial=lambda c: True, key=lambda c: [c["words"], c["pw"], c["testnet"], c.get("route", 0)],
               n={"quick": 200, "thorough": 5000}, shards={"quick": 8, "thorough": 16}),
        __import__("vlib.cold", fromlist=["x"]).cold_clause(
            "C03", st.tuples(st.sampled_from(["seed", "master"]),
                             st.sampled_from([16, 24, 32]).flatmap(lambda n_: st.binary(min_size=n_, max_size=n_)),
                             st.sampled_from(["", "pw", "\u00e9\u212b"]), st.binary(min_size=16, max_size=64)),
            _cold_build, "mnemonic -> seed, seed -> master key", n_quick=32, n_thorough=800),
    ]
