"""C04 — Mnemonic sentences encode their entropy losslessly with a valid checksum."""
import hashlib

from hypothesis import strategies as st

from vlib.engine import Clause, Violation
from vlib.ref import bip39 as R
from vlib.util import call, expect_eq

PROPERTY_ID = "C04"
OPTIMIZED = ['reject-size', 'hex-forms', 'generator-reject', 'encode']   # clauses run a second time under `python -O` (assert statements stripped)
RULE = ("entropy of the five sizes from patterned and uniform generators, through mnemonic_from_entropy "
        "(lower/upper-case hex) and BaseWallet.from_entropy_hex; all other byte lengths 0..64 exhaustively; "
        "hex text with whitespace / odd digit counts; oracle = word-by-word decoding through a frozen copy of "
        "the official list (pinned by two independent digests)")
ASSUMPTIONS = ["text containing non-hex characters is outside the stated domain and not generated",
               "whitespace-bearing hex is judged by result: an error, or the correct sentence for the bytes "
               "bytes.fromhex decodes to when those have an allowed size"]
SIZES = (16, 20, 24, 28, 32)


def _impl():
    from btc_hd_wallet import bip39
    from btc_hd_wallet.base_wallet import BaseWallet
    return bip39, BaseWallet


def entropies():
    size = st.sampled_from(SIZES)

    def lead(n, j, r):
        return (b"\x00" * j + r)[:n] if j < n else b"\x00" * n

    return st.one_of(
        size.flatmap(lambda n: st.binary(min_size=n, max_size=n)),
        size.map(lambda n: b"\x00" * n),
        size.map(lambda n: b"\xff" * n),
        st.builds(lead, size, st.integers(1, 31), st.binary(min_size=32, max_size=32)),
        st.builds(lambda n, r: (bytes([0, r[0] & 0x1F]) + r[2:])[:n], size, st.binary(min_size=32, max_size=32)),
        st.builds(lambda n, bit: (1 << (bit % (8 * n))).to_bytes(n, "big"), size, st.integers(0, 255)),
        st.builds(lambda n, bit: ((1 << (8 * n)) - 1 ^ (1 << (bit % (8 * n)))).to_bytes(n, "big"), size,
                  st.integers(0, 255)),
        st.builds(lambda n, b: bytes([b]) * n, size, st.integers(0, 255)),
    )


def _judge_sentence(sig, what, sentence, entropy):
    if not isinstance(sentence, str):
        raise Violation(sig + "/not-a-string", "%s returned %r" % (what, sentence))
    words = sentence.split(" ")
    want_n = len(entropy) * 8 * 3 // 32
    if len(words) != want_n:
        raise Violation(sig + "/word-count", "%s: %d words for %d bytes of entropy (expected %d)"
                        % (what, len(words), len(entropy), want_n))
    for w in words:
        if w not in R.INDEX:
            raise Violation(sig + "/foreign-word", "%s: word %r is not in the official list" % (what, w))
    dec = R.decode(sentence)
    if dec is None or dec[0] != entropy:
        raise Violation(sig + "/entropy-lost", "%s: sentence decodes to %s, entropy was %s"
                        % (what, dec and dec[0].hex(), entropy.hex()))
    if not dec[1]:
        raise Violation(sig + "/bad-checksum", "%s: checksum bits are not the leading bits of SHA-256(entropy): %s"
                        % (what, sentence))
    expect_eq(sig + "/differs-from-reference", what, sentence, R.encode(entropy))


def check_encode(case, ctx):
    bip39, BaseWallet = _impl()
    e = case["entropy"]
    # requests of the neighbouring (invalid) sizes come first: whatever they leave behind must not affect the valid one
    for bad in (e + e[:1], e[:-1]):
        st_, s = call(bip39.mnemonic_from_entropy, bad.hex())
        if st_ == "ok":
            raise Violation("C04/encode/neighbour-size-accepted", "mnemonic_from_entropy(<%d bytes>) returned %r" % (len(bad), s))
    for form, text in (("lower", e.hex()), ("upper", e.hex().upper())):
        st_, s = call(bip39.mnemonic_from_entropy, entropy=text) if form == "upper" else call(bip39.mnemonic_from_entropy, text)
        if st_ == "exc":
            raise Violation("C04/encode/refused-valid", "mnemonic_from_entropy(%s hex of %d bytes) raised %r"
                            % (form, len(e), s))
        _judge_sentence("C04/encode", "mnemonic_from_entropy(%s)" % text, s, e)
    for text in (e.hex(), e.hex().upper()):
        st_, w = call(BaseWallet.from_entropy_hex, text, case["pw"], case["testnet"])
        if st_ == "exc":
            raise Violation("C04/encode/refused-valid", "BaseWallet.from_entropy_hex(%s) raised %r" % (text, w))
        _judge_sentence("C04/wallet", "BaseWallet.from_entropy_hex(%s).mnemonic" % text, w.mnemonic, e)


def nt_encode(case):
    e = case["entropy"]
    return e[0] == 0 or len(set(e)) == 1 or (int.from_bytes(e[:2], "big") >> 5) == 0


def classes_encode(case):
    e = case["entropy"]
    out = ["size=%d" % len(e)]
    if e[0] == 0:
        out.append("leading-zero-byte")
    if len(set(e)) == 1:
        out.append("constant")
    return out


def enum_sizes(tier):
    for n in range(0, 65):
        if n in SIZES:
            continue
        for fill in (b"\x00", b"\xab", b"\xff"):
            yield {"bytes": fill * n}
        yield {"bytes": bytes((i * 37 + n) & 0xFF for i in range(n))}
    for n in (65, 66, 96, 128, 255, 256):
        yield {"bytes": bytes((i * 11 + n) & 0xFF for i in range(n))}


def check_reject_size(case, ctx):
    bip39, BaseWallet = _impl()
    b = case["bytes"]
    for form, text in (("lower", b.hex()), ("upper", b.hex().upper())):
        st_, s = call(bip39.mnemonic_from_entropy, text)
        if st_ == "ok":
            raise Violation("C04/reject/wrong-size-accepted", "mnemonic_from_entropy of %d bytes (%s) returned a "
                            "%d-word sentence %r" % (len(b), text[:24], len(str(s).split(" ")), str(s)[:80]))
    st_, w = call(BaseWallet.from_entropy_hex, b.hex().upper())
    if st_ == "ok":
        raise Violation("C04/reject/wrong-size-wallet", "BaseWallet.from_entropy_hex of %d bytes (upper-case hex) built a wallet "
                        "with mnemonic %r" % (len(b), getattr(w, "mnemonic", None)))
    st_, w = call(BaseWallet.from_entropy_hex, b.hex())
    if st_ == "ok":
        raise Violation("C04/reject/wrong-size-wallet", "BaseWallet.from_entropy_hex of %d bytes built a wallet with "
                        "mnemonic %r" % (len(b), getattr(w, "mnemonic", None)))


WS = [" ", "\t", "\n", "\r", "\x0b", "\x0c"]


def gen_hexforms(tier):
    # hex digits with whitespace inserted at generated positions, random case, possibly odd digit count
    nd = st.one_of(st.sampled_from([32, 40, 48, 56, 64]), st.sampled_from([31, 33, 39, 41, 63, 65, 30, 34, 16, 128]),
                   st.integers(0, 70))
    return st.fixed_dictionaries({
        "digits": nd.flatmap(lambda n: st.text(alphabet="0123456789abcdefABCDEF", min_size=n, max_size=n)),
        "ws": st.lists(st.tuples(st.integers(0, 140), st.sampled_from(WS)), min_size=0, max_size=6),
        # a radix prefix in front of the digits, the digits optionally starting with zero bytes
        "prefix": st.sampled_from(["", "", "", "", "0x", "0X", "0x", "x"]), "zeros": st.sampled_from([0, 0, 0, 2, 4, 8]),
    })


def hexform_text(case):
    t = case["digits"]
    if case.get("zeros"):
        t = "0" * case["zeros"] + t[case["zeros"]:] if len(t) >= case["zeros"] else t
    for pos, ch in case["ws"]:
        pos %= len(t) + 1
        t = t[:pos] + ch + t[pos:]
    return case.get("prefix", "") + t


def check_hexforms(case, ctx):
    bip39, BaseWallet = _impl()
    text = hexform_text(case)
    try:
        b = bytes.fromhex(text)
    except ValueError:
        b = None
    if case.get("prefix") in ("0x", "0X"):
        # hex digits behind a radix prefix: refusing is fine; accepting means encoding exactly the bytes behind the prefix
        try:
            b = bytes.fromhex(text[2:])
        except ValueError:
            b = None
    from btc_hd_wallet.paper_wallet import PaperWallet
    entries = [("mnemonic_from_entropy", lambda: bip39.mnemonic_from_entropy(text)),
               ("BaseWallet.from_entropy_hex", lambda: BaseWallet.from_entropy_hex(text).mnemonic),
               ("PaperWallet.from_entropy_hex", lambda: PaperWallet.from_entropy_hex(entropy_hex=text, password="x").mnemonic)]
    for name, f in entries:
        st_, s = call(f)
        if st_ == "exc":
            ctx.count("raised" if name == "mnemonic_from_entropy" else "raised[%s]" % name)
            continue
        ctx.count("returned" if name == "mnemonic_from_entropy" else "returned[%s]" % name)
        if b is None or len(b) not in SIZES:
            raise Violation("C04/hexform/produced-sentence" + ("" if name == "mnemonic_from_entropy" else "[%s]" % name),
                            "%s(%r) returned %r although the text holds %s" % (
                                name, text, str(s)[:80], "no whole number of bytes (%d hex digits)" % len(case["digits"])
                                if b is None else "%d bytes" % len(b)))
        _judge_sentence("C04/hexform", "%s(%r)" % (name, text), s, b)


def nt_hexforms(case):
    return bool(case["ws"]) or len(case["digits"]) not in (32, 40, 48, 56, 64) or bool(case.get("prefix"))


# ------------------------------------------------------------------------------------ generator path
import contextlib
import random as _random


class Scripted(_random.Random):
    """Stands in for the module-level random source of btc_hd_wallet.bip39: returns chosen values."""

    def __init__(self, values):
        super().__init__(0)
        self.values = list(values)
        self.asked = []

    def getrandbits(self, k):
        self.asked.append(k)
        v = self.values[(len(self.asked) - 1) % len(self.values)]
        return v & ((1 << k) - 1) if k > 0 else 0

    def random(self):
        return self.getrandbits(53) / (1 << 53)


@contextlib.contextmanager
def scripted_random(values):
    from btc_hd_wallet import bip39
    stub = Scripted(values)
    if not hasattr(bip39, "random"):
        yield stub          # nothing to substitute: the stub is simply never consulted
        return
    old = bip39.random
    bip39.random = stub
    try:
        yield stub
    finally:
        bip39.random = old


def check_generator(case, ctx):
    bip39, BaseWallet = _impl()
    e1, e2 = case["e1"], case["e2"]
    if len(e2) != len(e1):
        e2 = (e2 * 3)[: len(e1)]
    bits = len(e1) * 8
    for route in ("mnemonic_from_entropy_bits", "BaseWallet.from_entropy_bits", "BaseWallet.new_wallet"):
        earlier, consulted_before = [], False
        for e in (e1, e2, e1):
            with scripted_random([int.from_bytes(e, "big")]) as stub:
                if route == "mnemonic_from_entropy_bits":
                    st_, s = call(bip39.mnemonic_from_entropy_bits, bits)
                elif route == "BaseWallet.from_entropy_bits":
                    st_, s = call(lambda: BaseWallet.from_entropy_bits(bits).mnemonic)
                else:
                    st_, s = call(lambda: BaseWallet.new_wallet(len(e) * 3 // 4).mnemonic)
            if st_ == "exc":
                raise Violation("C04/generator/raised", "%s(%d bits) raised %r" % (route, bits, s))
            if not stub.asked and consulted_before and s in earlier:
                raise Violation("C04/generator/stale-sentence", "%s(%d bits) did not draw new entropy and returned the "
                                "sentence of an earlier call again: %r" % (route, bits, str(s)[:60]))
            consulted_before = consulted_before or bool(stub.asked)
            earlier.append(s)
            if not stub.asked:
                ctx.count("scripted-source-not-consulted")
                dec = R.decode(s) if isinstance(s, str) else None
                if dec is None or not dec[1] or len(dec[0]) != len(e):
                    raise Violation("C04/generator/invalid-sentence", "%s(%d bits) produced %r" % (route, bits, s))
                continue
            _judge_sentence("C04/generator", "%s(%d bits) with the random source returning %s" % (route, bits, e.hex()), s, e)


def enum_gen_reject(tier):
    for bits in range(0, 521):
        if bits not in (128, 160, 192, 224, 256):
            yield {"bits": bits}
    for bits in (-8, -128, 1024, 2048, 4096):
        yield {"bits": bits}


def check_gen_reject(case, ctx):
    bip39, BaseWallet = _impl()
    bits = case["bits"]
    for value in (1, (1 << max(bits, 1)) - 1):
        for route, f in (("mnemonic_from_entropy_bits", lambda: bip39.mnemonic_from_entropy_bits(bits)),
                         ("BaseWallet.from_entropy_bits", lambda: BaseWallet.from_entropy_bits(bits).mnemonic)):
            with scripted_random([value]):
                st_, s = call(f)
            if st_ == "ok":
                raise Violation("C04/generator/wrong-size-accepted", "%s(%d bits) returned the %d-word sentence %r"
                                % (route, bits, len(str(s).split(" ")), str(s)[:60]))
    if 0 <= bits <= 40 and bits not in (12, 15, 18, 21, 24):
        with scripted_random([1]):
            st_, w = call(BaseWallet.new_wallet, bits)
        if st_ == "ok":
            raise Violation("C04/generator/wrong-word-count-accepted", "new_wallet(mnemonic_length=%d) built a wallet: %r"
                            % (bits, getattr(w, "mnemonic", None)))


def check_wordlist(case, ctx):
    from btc_hd_wallet.bip39_wordlist import word_list
    wl = list(word_list)
    if len(wl) != 2048:
        raise Violation("C04/wordlist/length", "word list has %d entries" % len(wl))
    d1 = hashlib.sha256(("\n".join(wl) + "\n").encode()).hexdigest()
    d2 = hashlib.sha256("".join(wl).encode()).hexdigest()
    if d1 != R.SHA256_ENGLISH_TXT or d2 != R.BITCOINJ_DIGEST:
        bad = [i for i, (a, b) in enumerate(zip(wl, R.WORDS)) if a != b][:5]
        raise Violation("C04/wordlist/digest", "embedded list differs from the official one at indexes %r" % bad)
    if wl != sorted(wl) or len({w[:4] for w in wl}) != 2048:
        raise Violation("C04/wordlist/order", "list not sorted or 4-letter prefixes not unique")
    ctx.count("__extra_evals__", 2048)


# ------------------------------------------------------------------------------------ concurrent encodings
def check_encode_threads(case, ctx):
    """2..3 threads encode different entropy values (different sizes) at once under the deterministic scheduler."""
    from vlib import threads as T
    bip39, BaseWallet = _impl()
    jobs = case["jobs"]

    def runner(es):
        def run():
            return [call(bip39.mnemonic_from_entropy, e.hex()) for e in es]
        return run
    results, errors = T.run_scheduled(case["plan"], [runner(es) for es in jobs], T.library_files("bip39", "helper"), ctx)
    for t, es in enumerate(jobs):
        if t in errors:
            raise Violation("C04/threads/crashed", "thread %d raised %r" % (t, errors[t]))
        for e, (st_, s) in zip(es, results[t]):
            if st_ == "exc":
                raise Violation("C04/threads/raised", "with %d threads encoding at once, mnemonic_from_entropy(%s) raised %r"
                                % (len(jobs), e.hex(), s))
            _judge_sentence("C04/threads", "with %d threads encoding at once, mnemonic_from_entropy(%s)" % (len(jobs), e.hex()), s, e)


def _cold_build(e):
    return (["bip39", "mnemonic_from_entropy", [e.hex()]], R.encode(e), "mnemonic_from_entropy(%s)" % e.hex())


def clauses():
    return [
        Clause("encode", check_encode,
               "entropy of 16/20/24/28/32 bytes: uniform, all-zero, all-one, j leading zero bytes, first 11 bits "
               "zero, single set/cleared bit, constant byte; via mnemonic_from_entropy (lower and upper hex) and "
               "BaseWallet.from_entropy_hex; non-trivial = first byte zero, first word index 0, or constant bytes",
               gen=lambda tier: st.fixed_dictionaries({"entropy": entropies(), "pw": st.sampled_from(["", "x"]),
                                                       "testnet": st.booleans()}),
               nontrivial=nt_encode, classes=classes_encode,
               n={"quick": 1500, "thorough": 100000}, shards={"quick": 8, "thorough": 16}),
        Clause("reject-size", check_reject_size,
               "every byte length 0..64 other than the five (4 contents each) plus 65..256 samples, lower and upper "
               "hex, both call sites: must raise; all cases are rejection-class (non-trivial)",
               enum=enum_sizes, exhaustive=True, enum_desc="byte lengths 0..64 except 16/20/24/28/32",
               shards={"quick": 2, "thorough": 2}),
        Clause("hex-forms", check_hexforms,
               "hex digit strings (any length 0..128, mixed case) with 0..6 whitespace characters inserted anywhere: "
               "the call raises, or returns the right sentence for the decoded bytes of an allowed size; "
               "non-trivial = contains whitespace or a digit count other than 32/40/48/56/64",
               gen=gen_hexforms, nontrivial=nt_hexforms,
               classes=lambda c: ["ws=%d" % min(len(c["ws"]), 3), "digits-ok" if len(c["digits"]) in (32, 40, 48, 56, 64)
                                  else "digits-other"],
               n={"quick": 6000, "thorough": 300000}),
        Clause("encode-threads", check_encode_threads,
               "2..3 threads encode 1..3 entropy values each (sizes mixed) at once under the deterministic "
               "line-granularity scheduler (bip39.py, helper.py traced); every sentence judged as in `encode`; "
               "non-trivial = >= 2 thread switches (measured)",
               gen=lambda tier: st.fixed_dictionaries({
                   "jobs": st.lists(st.lists(entropies(), min_size=1, max_size=3), min_size=2, max_size=3),
                   "plan": __import__("vlib.threads", fromlist=["plans"]).plans()}),
               n={"quick": 400, "thorough": 20000}, shards={"quick": 8, "thorough": 16}),
        Clause("generator", check_generator,
               "the sentence generators (mnemonic_from_entropy_bits, BaseWallet.from_entropy_bits, new_wallet) with the "
               "module's random source replaced from outside by a scripted one: the sentence must encode exactly the "
               "drawn value (incl. values with leading zero bits), three consecutive draws per route; non-trivial = "
               "a drawn value with a leading zero byte or constant bytes",
               gen=lambda tier: st.fixed_dictionaries({"e1": entropies(), "e2": entropies()}),
               nontrivial=lambda c: c["e1"][0] == 0 or len(set(c["e1"])) == 1,
               n={"quick": 600, "thorough": 30000}, shards={"quick": 8, "thorough": 16}),
        Clause("generator-reject", check_gen_reject,
               "every bit size 0..520 other than the five (and negative / huge ones) with a scripted random source whose "
               "values fit: the generators must raise; new_wallet word counts 0..40 other than the five must raise",
               enum=enum_gen_reject, exhaustive=True, enum_desc="bit sizes 0..520 except 128/160/192/224/256",
               shards={"quick": 4, "thorough": 4}),
        Clause("wordlist", check_wordlist,
               "the embedded list: 2048 entries, SHA-256 of english.txt and bitcoinj digest both match, sorted, "
               "unique 4-letter prefixes", enum=lambda tier: [{"list": "english"}], exhaustive=True,
               enum_desc="the 2048 list entries", shards={"quick": 1, "thorough": 1}),
        __import__("vlib.cold", fromlist=["x"]).cold_clause("C04", entropies(), _cold_build, "entropy -> sentence (word list loaded on first use)"),
    ]
