"""C17 — Path strings are honoured component by component or rejected."""
from hypothesis import strategies as st

from vlib import strategies as S
from vlib.engine import Clause, Violation
from vlib.ref import bip32 as R
from vlib.ref import bip85 as R85
from vlib.util import call, expect_eq

PROPERTY_ID = "C17"
OPTIMIZED = ['malformed', 'parse-format', 'lookup', 'lenient']   # clauses run a second time under `python -O` (assert statements stripped)
RULE = ("index lists of length 0..5 over [0, 2^32) rendered with ' or h per component and root m or M; malformed "
        "strings from a grammar of single faults applied to a valid rendering of at most five components; paths of "
        "6..12 components; lookups compared with iterated child derivation and with the independent BIP32 model on two "
        "wallets with different masters in the same process")
ASSUMPTIONS = ["tokens Python's int() tolerates (surrounding spaces, '+', '_', non-ASCII digits, '-0') are read as the "
               "obvious number; the statement does not classify them: counted as lenient, not judged",
               "a trailing '/' is not an inner empty component"]
H = S.H


def _impl():
    from btc_hd_wallet.wallet_utils import Bip32Path
    from btc_hd_wallet.base_wallet import BaseWallet
    from btc_hd_wallet.bip85 import BIP85DeterministicEntropy
    return Bip32Path, BaseWallet, BIP85DeterministicEntropy


def render(path, marks, root):
    out = [root]
    for i, idx in enumerate(path):
        if idx >= H:
            out.append(str(idx - H) + ("h" if marks[i % len(marks)] else "'"))
        else:
            out.append(str(idx))
    return "/".join(out)


def paths(max_len=5, min_len=0):
    return st.lists(S.indexes(), min_size=min_len, max_size=max_len)


MARKS = st.lists(st.booleans(), min_size=1, max_size=5)


def check_parse(case, ctx):
    Bip32Path, BaseWallet, B85 = _impl()
    L, root = list(case["path"]), case["root"]
    s = render(L, case["marks"], root)
    st_, p = call(Bip32Path.parse, s=s) if root == "M" else call(Bip32Path.parse, s)
    if st_ == "exc":
        raise Violation("C17/parse/raised", "Bip32Path.parse(%r) raised %r" % (s, p))
    expect_eq("C17/parse/list", "Bip32Path.parse(%r).to_list()" % s, list(p.to_list()), L)
    canon = R.fmt_path(L, root)
    expect_eq("C17/format/canonical", "str(Bip32Path.parse(%r))" % s, str(p), canon)
    st_, p2 = call(Bip32Path.parse, str(p))
    if st_ == "exc" or list(p2.to_list()) != L or not (p2 == p):
        raise Violation("C17/format/reparse", "parse(str(parse(%r))) differs: %r" % (s, p2))
    # the caller edits the object it got back; parsing the same string again must not be affected
    for attr, val in (("addr_index", 7), ("chain", 1), ("account", H + 3), ("coin_type", H + 1), ("purpose", H + 99)):
        try:
            setattr(p, attr, val)
        except Exception:  # noqa: BLE001
            pass
    # the edited object formats / lists the levels it NOW holds (a loop `path.addr_index = i; by_path(str(path))`)
    names_ = ["purpose", "coin_type", "account", "chain", "addr_index"]
    held = []
    for nm in names_:
        v_ = getattr(p, nm, None)
        if v_ is None:
            break
        held.append(v_)
    if held and all(isinstance(v_, int) and 0 <= v_ < 2 ** 32 for v_ in held):
        st_, txt = call(str, p)
        st2, lst = call(lambda: list(p.to_list()))
        if st_ == "exc" or txt != R.fmt_path(held, root):
            raise Violation("C17/format/stale-after-attribute-edit", "a path parsed from %r whose level attributes were then set to %r "
                            "formats as %r, expected %s" % (s, held, txt, R.fmt_path(held, root)))
        if st2 == "exc" or lst != held:
            raise Violation("C17/format/stale-after-attribute-edit", "a path parsed from %r whose level attributes were then set to %r "
                            "lists %r" % (s, held, lst))
    for form in ("positional", "keyword"):
        st_, pa = call(Bip32Path.parse, s) if form == "positional" else call(Bip32Path.parse, s=s)
        if st_ == "exc" or list(pa.to_list()) != L:
            raise Violation("C17/parse/poisoned-by-earlier-result", "after the object returned by an earlier parse(%r) was "
                            "edited, parse(%r) [%s] gives %r, expected %r" % (s, s, form, pa if st_ == "exc" else pa.to_list(), L))
    st_, p = call(Bip32Path.parse, s)
    other = render(L, [not m for m in case["marks"]], root)
    st_, p3 = call(Bip32Path.parse, other)
    if st_ == "exc" or not (p3 == p) or list(p3.to_list()) != L:
        raise Violation("C17/parse/markers-not-equivalent", "%r and %r parse differently" % (s, other))
    expect_eq("C17/parse/root-mark", "private flag for root %r" % root, bool(p.private), root == "m")
    # constructing from numbers and formatting is the same identity
    names = ["purpose", "coin_type", "account", "chain", "addr_index"]
    st_, p4 = call(lambda: Bip32Path(private=(root == "m"), **dict(zip(names, L))))
    if st_ == "exc" or str(p4) != canon or not (p4 == p):
        raise Violation("C17/format/constructor", "Bip32Path(%r) formats as %r, expected %s" % (L, p4, canon))


def nt_parse(case):
    return len(case["path"]) >= 1 and any(i >= H for i in case["path"])


# ------------------------------------------------------------------------------------ lookups
def check_lookup(case, ctx):
    Bip32Path, BaseWallet, B85 = _impl()
    L = list(case["path"])
    s = render(L, case["marks"], case["root"])
    for tag, seed in (("wallet-1", case["seed"]), ("wallet-2", case["seed2"])):
        try:
            rm = R.master(seed)
            ref = R.derive(rm, L)
        except R.Invalid:
            continue
        w = BaseWallet.from_bip39_seed_bytes(seed, case["testnet"])
        st_, node = call(w.by_path, path=s) if tag == "wallet-2" else call(w.by_path, s)
        if st_ == "exc":
            raise Violation("C17/lookup/raised", "by_path(%r) raised %r" % (s, node))
        vprv, vpub = (R.TPRV, R.TPUB) if case["testnet"] else (R.XPRV, R.XPUB)
        st_, x = call(node.extended_private_key)
        if st_ == "exc" or x != ref.xprv(vprv):
            raise Violation("C17/lookup/wrong-node", "%s: by_path(%r) -> %r, reference node at %s is %s"
                            % (tag, s, x, R.fmt_path(L), ref.xprv(vprv)))
        st_, x = call(node.extended_public_key)
        if st_ == "exc" or x != ref.xpub(vpub):
            raise Violation("C17/lookup/wrong-node", "%s: by_path(%r) xpub %r" % (tag, s, x))
        expect_eq("C17/lookup/str", "str(by_path(%r))" % s, str(node), R.fmt_path(L, "m"))
        # the same lookup on a wallet object that is NOT kept alive: only the returned node survives
        if L:
            import gc
            st_, lone = call(lambda: BaseWallet.from_bip39_seed_bytes(seed, case["testnet"]).by_path(s))
            gc.collect()
            if st_ == "exc":
                raise Violation("C17/lookup/raised", "by_path(%r) on a temporary wallet raised %r" % (s, lone))
            got_l = (call(lone.extended_private_key)[1], call(str, lone)[1])
            if got_l != (ref.xprv(vprv), R.fmt_path(L, "m")):
                raise Violation("C17/lookup/node-of-temporary-wallet", "%s: the node by_path(%r) returned from a wallet that was not kept "
                                "alive serialises as %r / formats as %r, expected %s / %s" % (tag, s, got_l[0], got_l[1], ref.xprv(vprv), R.fmt_path(L, "m")))
        # equals applying each component in order on a fresh wallet
        cur = BaseWallet.from_bip39_seed_bytes(seed, case["testnet"]).master
        for i in L:
            cur = cur.ckd(i)
        if cur.extended_private_key() != node.extended_private_key():
            raise Violation("C17/lookup/differs-from-iterated-ckd", "by_path(%r) != iterated ckd over %r" % (s, L))
        # the same lookup on wallets whose own root sits BELOW the master (account-level extended keys): the string is
        # honoured component by component relative to that wallet's root
        if tag == "wallet-1":
            for rootpath in ([H + 84, H, H], [0], [H + 44, H + 1, H + 2, 0]):
                try:
                    rroot = R.derive(rm, rootpath)
                    rsub = R.derive(rroot, L)
                except R.Invalid:
                    continue
                ws = [("xprv", BaseWallet.from_extended_key(rroot.xprv(vprv)))]
                if all(i < H for i in L):
                    ws.append(("xpub", BaseWallet.from_extended_key(rroot.xpub(vpub))))
                for kind_, wsub in ws:
                    st_, node2 = call(wsub.by_path, s)
                    if st_ == "exc":
                        raise Violation("C17/lookup/raised", "by_path(%r) on a wallet rooted at depth %d (%s) raised %r"
                                        % (s, len(rootpath), kind_, node2))
                    got = (node2.extended_public_key(), node2.depth, node2.index)
                    if got != (rsub.xpub(vpub), rsub.depth, rsub.index):
                        raise Violation("C17/lookup/wrong-node-below-deeper-root", "by_path(%r) on a wallet built from the depth-%d "
                                        "%s at %s gives %r (depth %d), applying the components to that root gives %s (depth %d)"
                                        % (s, len(rootpath), kind_, R.fmt_path(rootpath), got[0], got[1], rsub.xpub(vpub), rsub.depth))
                ctx.count("deeper-root-lookups", len(ws))
        # lookups on a paper wallet that has ALREADY generated records (interval not starting at 0) and served BIP85 requests
        if tag == "wallet-1":
            from btc_hd_wallet.paper_wallet import PaperWallet
            pw_ = PaperWallet.from_bip39_seed_bytes(seed, case["testnet"])
            acct = (L[2] - H) if len(L) >= 3 and L[2] >= H else 0
            start = 5 + len(L)
            call(pw_.generate, acct, (start, start + 3))
            call(pw_.bip85.wif, 0)
            call(pw_.bip85.hex, 32, 0)
            coin = H + (1 if case["testnet"] else 0)
            probes = [L] + [[H + pur, coin, H + acct, 0, j] for pur in (44, 84) for j in (0, 2)] \
                + [[H + 83696968, 2, H], [H + 83696968, 128169, H + 32, H]]
            for Lp in probes:
                sp = R.fmt_path(Lp, "m")
                try:
                    rp_ = R.derive(rm, Lp)
                except R.Invalid:
                    continue
                st_, nd = call(pw_.by_path, sp)
                if st_ == "exc" or nd.extended_private_key() != rp_.xprv(vprv) or str(nd) != sp:
                    raise Violation("C17/lookup/wrong-node-after-generate", "paper wallet that generated account %d rows %d..%d first: "
                                    "by_path(%r) gives %r, applying the components gives %s" % (
                                        acct, start, start + 2, sp, nd if st_ == "exc" else (str(nd), nd.extended_private_key()), rp_.xprv(vprv)))
                st_, en = call(pw_.bip85.entropy, sp)
                if st_ == "ok" and en != R85.entropy(rm, Lp):
                    raise Violation("C17/lookup/bip85-entropy-after-app-calls", "after wif() / hex() on the same object, bip85.entropy(%r) = %s, "
                                    "the node at exactly that path gives %s" % (sp, en.hex(), R85.entropy(rm, Lp).hex()))
        # BIP85 entropy lookup by path string
        # BIP85 itself only defines hardened paths: entropy(path) may refuse a path, but must never use another one
        st_, e = call(w.bip85.entropy, s)
        if st_ == "exc":
            ctx.count("bip85-entropy-refused-path[%s]" % ("all-hardened" if all(i >= H for i in L) else "has-normal-component"))
            if L and all(i >= H for i in L) and case["root"] == "m":
                raise Violation("C17/lookup/bip85-entropy-refused", "bip85.entropy(%r) (fully hardened) raised %r" % (s, e))
        elif e != R85.entropy(rm, L):
            raise Violation("C17/lookup/bip85-entropy", "bip85.entropy(%r) = %r, the node at that path gives %s"
                            % (s, e, R85.entropy(rm, L).hex()))


# ------------------------------------------------------------------------------------ lookups from several threads
def gen_lookup_threads(tier):
    from vlib import threads as T
    # paths that share parents (siblings under a few fixed prefixes) and unrelated ones
    prefix = st.sampled_from([[], [H + 83696968], [H + 83696968, H + 2], [H + 83696968, H + 39, H], [H + 44, H], [0]])
    tail = st.lists(st.one_of(st.sampled_from([H, H + 1, H + 2, 0, 1]), S.indexes()), min_size=1, max_size=2)
    pth = st.builds(lambda a, b: (list(a) + list(b))[:5], prefix, tail)
    req = st.tuples(st.sampled_from(["entropy", "entropy", "by_path"]), pth, MARKS)
    return st.fixed_dictionaries({
        "seed": S.seeds(16, 32), "testnet": st.booleans(), "warmup": st.lists(req, max_size=2),
        "threads": st.lists(st.lists(req, min_size=1, max_size=2), min_size=2, max_size=3),
        "plan": T.plans(max_run=15, max_len=60)})


def check_lookup_threads(case, ctx):
    """2..3 threads look nodes / BIP85 entropy up by path string on ONE wallet (one bip85 object) at once."""
    from vlib import threads as T
    Bip32Path, BaseWallet, B85 = _impl()
    try:
        rm = R.master(case["seed"])
    except R.Invalid:
        return
    w = BaseWallet.from_bip39_seed_bytes(case["seed"], case["testnet"])
    vprv = R.TPRV if case["testnet"] else R.XPRV

    def do(req):
        kind, L, marks = req
        s_ = render(list(L), list(marks), "m")
        if kind == "entropy":
            return w.bip85.entropy(s_)
        return w.by_path(s_).extended_private_key()
    for req in case["warmup"]:
        call(do, req)

    def runner(reqs):
        def run():
            return [call(do, r) for r in reqs]
        return run
    results, errors = T.run_scheduled(case["plan"], [runner(r) for r in case["threads"]],
                                      T.library_files("bip85", "bip32", "wallet_utils", "base_wallet", "keys", "helper"), ctx)
    for t, reqs in enumerate(case["threads"]):
        if t in errors:
            raise Violation("C17/lookup-threads/crashed", "thread %d raised %r" % (t, errors[t]))
        for (kind, L, marks), (st_, got) in zip(reqs, results[t]):
            L = list(L)
            s_ = render(L, list(marks), "m")
            try:
                want = R85.entropy(rm, L) if kind == "entropy" else R.derive(rm, L).xprv(vprv)
            except R.Invalid:
                continue
            if st_ == "exc":
                if kind == "entropy" and not all(i >= H for i in L):
                    ctx.count("bip85-entropy-refused-path[has-normal-component]")
                    continue
                raise Violation("C17/lookup-threads/raised", "with %d threads looking paths up on one wallet, %s(%r) raised %r"
                                % (len(case["threads"]), kind, s_, got))
            if got != want:
                raise Violation("C17/lookup-threads/wrong-node[%s]" % kind, "with %d threads looking paths up on one wallet, %s(%r) "
                                "gave %r; applying the components of that string gives %r (requests: %r)" % (
                                    len(case["threads"]), kind, s_, got.hex() if isinstance(got, bytes) else got,
                                    want.hex() if isinstance(want, bytes) else want, case["threads"]))


# ------------------------------------------------------------------------------------ malformed
ROOT_FAULTS = ["", "n", "mm", "m'", "Mm", "x", "1", "/m", "m'", "mh", "µ", "ｍ", "m.", "_m"]
JUNK = ["a", "abc", "0x1f", "0b1", "0o7", "1.5", "1e3", "12a", "a12", "'", "h", "1''", "1hh", "1'h", "1h'", "--1", "1-",
        "'1", "h1", "1'1", "None", "1,2", "1;2", "0x", "²", "1²", "٣x", "1\x00", "\\1"]
RANGE = ["-1", "-1'", "-1h", "-2147483648'", "-2147483649'", "2147483648'", "2147483648h", "4294967295'", "4294967296",
         "4294967296'", "4294967297", "-4294967296", "-2147483647", "99999999999999999999999999999",
         "99999999999999999999999999999'", "-99999999999999999999999999999", "2147483649'", "3000000000h"]


def gen_malformed(tier):
    return st.fixed_dictionaries({
        "path": paths(5, 1), "marks": MARKS, "root": st.sampled_from(["m", "M"]),
        "fault": st.one_of(
            st.tuples(st.just("root"), st.sampled_from(ROOT_FAULTS), st.just(0)),
            st.tuples(st.just("junk"), st.sampled_from(JUNK), st.integers(0, 4)),
            st.tuples(st.just("range"), st.sampled_from(RANGE), st.integers(0, 4)),
            st.tuples(st.just("range"), st.one_of(st.integers(-2 ** 40, -1).map(str), st.integers(2 ** 32, 2 ** 40).map(str),
                                                  st.integers(H, 2 ** 34).map(lambda v: str(v) + "'"),
                                                  st.integers(-2 ** 34, -1).map(lambda v: str(v) + "h")), st.integers(0, 4)),
            st.tuples(st.just("empty"), st.just(""), st.integers(0, 3)),
            st.tuples(st.just("noroot"), st.just(""), st.just(0)),
        ),
        "seed": S.seeds(16, 32), "watch_only": st.booleans(),
    })


def enum_malformed(tier):
    seed = bytes(range(16))
    for f in ROOT_FAULTS:
        yield {"path": [H + 44, H, 5], "marks": [False], "root": "m", "fault": ["root", f, 0], "seed": seed, "watch_only": False}
    for pos in range(5):
        for tok in JUNK + RANGE:
            kind = "junk" if tok in JUNK else "range"
            yield {"path": [H + 44, H, H + 1, 0, 7], "marks": [False, True], "root": "m", "fault": [kind, tok, pos],
                   "seed": seed, "watch_only": False}
    for pos in range(4):
        yield {"path": [1, 2, 3, 4, 5], "marks": [False], "root": "M", "fault": ["empty", "", pos], "seed": seed, "watch_only": False}


def build_malformed(case):
    L = list(case["path"])
    kind, tok, pos = case["fault"]
    s = render(L, case["marks"], case["root"])
    parts = s.split("/")
    if kind == "root":
        parts[0] = tok
    elif kind == "noroot":
        parts = parts[1:]
    elif kind in ("junk", "range"):
        i = 1 + pos % len(L)
        parts[i] = tok
    elif kind == "empty":
        if len(L) < 2:
            parts = [parts[0], "", parts[1]]
        else:
            i = 1 + pos % (len(L) - 1)   # an inner component (never the last one)
            parts[i] = ""
    return "/".join(parts)


def check_malformed(case, ctx):
    Bip32Path, BaseWallet, B85 = _impl()
    s = build_malformed(case)
    kind = case["fault"][0]
    if kind == "noroot" and s.split("/")[0] in ("m", "M"):
        ctx.count("noroot-still-valid-skipped")
        return
    w = BaseWallet.from_bip39_seed_bytes(case["seed"])
    if case["watch_only"]:
        w = BaseWallet.from_extended_key(w.master.extended_public_key())
    st_, node = call(w.by_path, s)
    if st_ == "ok":
        raise Violation("C17/malformed/%s-accepted" % kind, "by_path(%r) returned node %s instead of raising"
                        % (s, _safe_str(node)))
    if not case["watch_only"]:
        st_, e = call(w.bip85.entropy, s)
        if st_ == "ok":
            raise Violation("C17/malformed/%s-accepted-bip85" % kind, "bip85.entropy(%r) returned %d bytes" % (s, len(e)))
    st_, p = call(Bip32Path.parse, s)
    if st_ == "ok":
        raise Violation("C17/malformed/%s-parsed" % kind, "Bip32Path.parse(%r) returned %r" % (s, _safe_str(p)))


def _safe_str(o):
    try:
        return str(o)
    except Exception as e:  # noqa: BLE001
        return "<unprintable %s: %r>" % (type(o).__name__, e)


# ------------------------------------------------------------------------------------ lenient tokens (counted only)
LENIENT = [" 1", "1 ", "+1", "1_0", "１", "٣", "-0", "-0'", "01", "000'", "+0h", "\t5", "5\n", "1H", "1 '"]
LENIENT_WHOLE = [" m/0", "m /0", "m/0 ", "\tm/1'", "m/ 1/2", "m/ "]   # whitespace around the root / components


def check_lenient(case, ctx):
    Bip32Path, BaseWallet, B85 = _impl()
    tok = case["tok"]
    s = "m/" + tok
    st_, p = call(Bip32Path.parse, s)
    if st_ == "ok":
        ctx.count("lenient_accepted")
        core = tok.strip().rstrip("'h")
        try:
            val = int(core) + (H if tok.strip()[-1:] in ("'", "h") else 0)
        except ValueError:
            return
        if list(p.to_list()) != [val]:
            raise Violation("C17/lenient/wrong-number", "token %r read as %r, obvious value %d" % (tok, p.to_list(), val))
    else:
        ctx.count("lenient_rejected")
    for whole in LENIENT_WHOLE:
        st_, p = call(Bip32Path.parse, whole)
        ctx.count("whitespace-padded-accepted" if st_ == "ok" else "whitespace-padded-rejected")
    st_, p = call(Bip32Path.parse, "m/1/2/")
    if st_ == "ok":
        ctx.count("trailing-slash-accepted")
        if list(p.to_list()) != [1, 2]:
            raise Violation("C17/lenient/trailing-slash", "'m/1/2/' parsed as %r" % (p.to_list(),))


# ------------------------------------------------------------------------------------ deep paths
def check_deep(case, ctx):
    Bip32Path, BaseWallet, B85 = _impl()
    L = list(case["path"])
    s = render(L, case["marks"], case["root"])
    try:
        rm = R.master(case["seed"])
        full = R.derive(rm, L)
        five = R.derive(rm, L[:5])
    except R.Invalid:
        return
    w = BaseWallet.from_bip39_seed_bytes(case["seed"])
    TRUNC = "C17/deep/silently-truncated-to-five-levels"
    found = []   # every site is judged; a wrong outcome other than the listed truncation is reported first
    st_, node = call(w.by_path, s)
    if st_ == "ok":
        x = node.extended_private_key()
        if x == full.xprv():
            ctx.count("deep-honoured")
        elif x == five.xprv():
            found.append(Violation(TRUNC, "by_path(%r) (%d levels) returned the node of its first five levels %s"
                                   % (s, len(L), str(node))))
        else:
            found.append(Violation("C17/deep/wrong-node", "by_path(%r) returned %s, neither the full-depth node nor "
                                   "an error" % (s, x)))
    else:
        ctx.count("deep-rejected")
    st_, e = call(w.bip85.entropy, s)
    if st_ == "ok":
        if e == R85.entropy(rm, L):
            pass
        elif e == R85.entropy(rm, L[:5]):
            found.append(Violation(TRUNC, "bip85.entropy(%r) (%d levels) used only the first five levels" % (s, len(L))))
        else:
            found.append(Violation("C17/deep/wrong-node", "bip85.entropy(%r) is neither the full-depth value nor an error" % s))
    st_, p = call(Bip32Path.parse, s)
    if st_ == "ok":
        got = list(p.to_list())
        if got == L:
            pass
        elif got == L[:5]:
            found.append(Violation(TRUNC, "Bip32Path.parse(%r) kept only the first five of %d components" % (s, len(L))))
        else:
            found.append(Violation("C17/deep/wrong-list", "Bip32Path.parse(%r).to_list() = %r" % (s, got)))
    for v in found:
        if v.sig != TRUNC:
            raise v
    if found:
        raise found[0]


# ------------------------------------------------------------------------------------ reference tokenizer + fuzz
import re as _re

_TOK = _re.compile(r"^([0-9]+)(['h]?)$")


def classify_path(s):
    """-> ('valid', list, root) | ('malformed', why) | ('lenient', why) | ('deep', n).

    'lenient' = the statement does not classify the string (int()-tolerated tokens, trailing '/')."""
    parts = s.split("/")
    padded = any(p != p.strip() for p in parts)      # whitespace around the root or a component: unclassified
    parts = [p.strip() for p in parts]
    if parts[0] not in ("m", "M"):
        return ("malformed", "root")
    comps = parts[1:]
    while comps and comps[-1] == "":
        comps = comps[:-1]
        trailing = True
    else:
        trailing = len(parts) - 1 != len(comps)
    if len(comps) > 5:
        return ("deep", len(comps))   # everything past the fifth level is the listed known finding's root cause
    if any(c == "" for c in comps):
        return ("malformed", "empty-inner")
    out = []
    lenient = trailing or padded
    for c in comps:
        m = _TOK.match(c)
        if m and c.isascii():
            v = int(m.group(1))
            if m.group(2):
                if v >= H:
                    return ("malformed", "range")
                v += H
            elif v >= 2 ** 32:
                return ("malformed", "range")
            if len(m.group(1)) > 1 and m.group(1)[0] == "0":
                lenient = True   # leading zeros: read as the number, not classified by the statement
            out.append(v)
            continue
        core = c[:-1] if c[-1:] in ("'", "h") else c
        try:
            v = int(core)
        except ValueError:
            return ("malformed", "junk")
        # int() accepted something that is not plain ASCII digits: sign, spaces, underscores, other digits
        if v < 0 or v >= (H if core != c else 2 ** 32):
            return ("malformed", "range")
        lenient = True
        out.append(v + (H if core != c else 0))
    if lenient:
        return ("lenient", out)
    return ("valid", out, parts[0])


FUZZ_ALPHA = "mM/0123456789'h-+ _x.e²٣"


def check_fuzz(case, ctx):
    Bip32Path, BaseWallet, B85 = _impl()
    d = case["data"]
    s = "".join(FUZZ_ALPHA[b % len(FUZZ_ALPHA)] for b in d)
    if d and d[0] & 0x80:
        s = "m/" + s[1:]
    cls = classify_path(s)
    st_, p = call(Bip32Path.parse, s)
    ctx.count("fuzz:" + cls[0])
    if cls[0] == "valid":
        if st_ == "exc":
            raise Violation("C17/fuzz/valid-refused", "Bip32Path.parse(%r) raised %r" % (s, p))
        if list(p.to_list()) != cls[1] or str(p) != R.fmt_path(cls[1], cls[2]):
            raise Violation("C17/fuzz/valid-misread", "Bip32Path.parse(%r) -> %r / %s, expected %r" % (s, p.to_list(), p, cls[1]))
    elif cls[0] == "malformed":
        if st_ == "ok":
            raise Violation("C17/fuzz/malformed-accepted[%s]" % cls[1], "Bip32Path.parse(%r) returned %s" % (s, _safe_str(p)))
    elif cls[0] == "lenient":
        if st_ == "ok" and list(p.to_list()) != cls[1]:
            raise Violation("C17/fuzz/lenient-misread", "Bip32Path.parse(%r) -> %r, obvious reading %r" % (s, p.to_list(), cls[1]))
    # 'deep' strings are the listed known finding's territory and are judged by the deep clause


FUZZ_CORPUS = [b"\x00\x02\x06\x06\x0c\x02\x03", b"m/44'/0'/0'/0/0", bytes([0x80, 2, 3, 12, 2, 4, 13])]


# ------------------------------------------------------------------------------------ first use from several threads
def _cold_build(it):
    L, marks, root, seed = it
    L = list(L)
    s_ = render(L, list(marks), root)
    if seed is None:
        return (["wallet_utils", "Bip32Path.parse", [s_], [["to_list", []]]], L, "Bip32Path.parse(%r).to_list()" % s_)
    try:
        want = R.derive(R.master(seed), L).xpub(R.XPUB)
    except R.Invalid:
        want = None
    return (["base_wallet", "BaseWallet.from_bip39_seed_hex", [seed.hex()], [["by_path", [render(L, list(marks), "m")]], ["extended_public_key", []]]],
            want, "from_bip39_seed_hex(..).by_path(%r)" % render(L, list(marks), "m"))


def clauses():
    return [
        Clause("parse-format", check_parse,
               "index lists of length 0..5 (classes 0,1,2^31-1,2^31,2^31+1,2^32-1,uniform), per-component ' or h marker, "
               "root m/M: parse -> list identity, canonical formatting, re-parse, marker equivalence, constructor "
               "formatting; non-trivial = at least one hardened component",
               gen=lambda tier: st.fixed_dictionaries({"path": paths(), "marks": MARKS, "root": st.sampled_from(["m", "M"])}),
               nontrivial=nt_parse, classes=lambda c: ["len=%d" % len(c["path"])],
               n={"quick": 6000, "thorough": 300000}, shards={"quick": 8, "thorough": 16}),
        Clause("lookup", check_lookup,
               "by_path(string) on two wallets with different masters in one process: equals the independent BIP32 "
               "derivation (xprv and xpub strings), iterated ckd, canonical str(node); the same string on wallets built "
               "from extended keys at depth 1, 3 and 4 (private, and public for all-normal paths) resolves relative to "
               "that root; bip85.entropy(string) equals the "
               "reference; non-trivial = length >= 2 with a hardened component",
               gen=lambda tier: st.fixed_dictionaries({"path": paths(), "marks": MARKS, "root": st.sampled_from(["m", "M"]),
                                                       "seed": S.seeds(16, 64), "seed2": S.seeds(16, 64), "testnet": st.booleans()}),
               enum=lambda tier: [{"path": p, "marks": [False], "root": r, "seed": bytes(range(16)), "seed2": bytes(range(1, 17)),
                                   "testnet": False}
                                  for r in ("m", "M") for p in ([], [0], [0, 0], [0, 0, 0, 0, 0], [H], [H, 0], [0, H], [1], [H - 1],
                                                                [2 ** 32 - 1], [0, 0, 0, 0, 1], [1, 0, 0, 0, 0])],
               enum_desc="12 corner paths (all-zero, single component, boundary indexes) x 2 roots",
               nontrivial=lambda c: len(c["path"]) >= 2 and any(i >= H for i in c["path"]),
               classes=lambda c: ["len=%d" % len(c["path"])],
               n={"quick": 500, "thorough": 25000}, shards={"quick": 16, "thorough": 16}),
        Clause("lookup-threads", check_lookup_threads,
               "2..3 threads issue 1..2 lookups each by path string - bip85.entropy(string) and by_path(string), paths "
               "that share parents and unrelated ones - on ONE wallet after 0..2 warm-up lookups, under the deterministic "
               "line-granularity scheduler; each answer must be the node / entropy of exactly that string's components; "
               "non-trivial = >= 2 thread switches (measured)",
               gen=gen_lookup_threads, n={"quick": 300, "thorough": 10000}, shards={"quick": 16, "thorough": 16}),
        Clause("malformed", check_malformed,
               "one fault in an otherwise valid string of <= 5 components: wrong root (14 forms), junk token (31 forms), "
               "out-of-range number with/without marker (listed and generated), empty inner component, missing root; "
               "by_path (full and watch-only wallet), bip85.entropy and Bip32Path.parse must raise",
               gen=gen_malformed, enum=enum_malformed, classes=lambda c: [c["fault"][0]],
               enum_desc="14 root faults + 49 tokens x 5 positions + 4 empty-component positions",
               n={"quick": 2500, "thorough": 100000}, shards={"quick": 8, "thorough": 16}),
        Clause("lenient", check_lenient,
               "tokens int() tolerates and a trailing '/': outcome counted; if accepted the value must be the obvious one",
               enum=lambda tier: [{"tok": t} for t in LENIENT], enum_desc="13 lenient tokens",
               nontrivial=lambda c: True, shards={"quick": 1, "thorough": 1}),
        Clause("deep", check_deep,
               "valid paths of 6..12 components: by_path / bip85.entropy / Bip32Path.parse must honour all levels or "
               "raise; a result equal to the first five levels is the listed known finding, any other wrong result a "
               "violation; every case non-trivial",
               gen=lambda tier: st.fixed_dictionaries({"path": paths(12, 6), "marks": MARKS, "root": st.sampled_from(["m", "M"]),
                                                       "seed": S.seeds(16, 32)}),
               classes=lambda c: ["len=%d" % len(c["path"])],
               n={"quick": 300, "thorough": 15000}, shards={"quick": 16, "thorough": 16}),
        Clause("fuzz-parse", check_fuzz,
               "raw bytes mapped to strings over \"mM/0-9'h-+ _x.e\" plus non-ASCII digits; an independent tokenizer "
               "classifies each string as valid / malformed / lenient / deep and Bip32Path.parse must agree (valid -> "
               "that list and canonical form, malformed -> raises); hypothesis st.binary and atheris/libFuzzer campaigns",
               gen=lambda tier: st.fixed_dictionaries({"data": st.binary(max_size=40)}),
               nontrivial=lambda c: len(c["data"]) >= 3,
               n={"quick": 4000, "thorough": 200000}, shards={"quick": 4, "thorough": 8},
               fuzz={"runs": {"quick": 30000, "thorough": 1500000}, "campaigns": {"quick": 2, "thorough": 8},
                     "max_len": 60, "corpus": FUZZ_CORPUS}),
        __import__("vlib.cold", fromlist=["x"]).cold_clause(
            "C17", st.tuples(paths(), MARKS, st.sampled_from(["m", "M"]), st.one_of(st.none(), S.seeds(16, 32))),
            _cold_build, "path parsing and by_path lookups"),
    ]
