"""C02 — Public-only derivation agrees with private derivation on every normal path."""
from hypothesis import strategies as st

from vlib import strategies as S
from vlib.engine import Clause, Violation
from vlib.ref import bip32 as R
from vlib.ref import secp
from vlib.util import call, expect_eq
from vlib.props.c01 import parents, ref_parent, versions

PROPERTY_ID = "C02"
OPTIMIZED = ['refusal', 'path']   # clauses run a second time under `python -O` (assert statements stripped)
RULE = ("parents as in C01; paths of 0..6 indexes in [0, 2^31); public parent obtained three ways (constructor "
        "from the reference point, parse of the reference xpub, parse of the implementation's own xpub); oracle = "
        "the implementation's private derivation with the private part dropped AND an independent CKDpub")
ASSUMPTIONS = ["public nodes hold compressed keys (what every serialised extended public key contains)",
               "the PRF is not substituted here; IL = 0 is outside this property's quantifier"]
H = S.H


def _impl():
    from btc_hd_wallet.bip32 import PrvKeyNode, PubKeyNode
    return PrvKeyNode, PubKeyNode


def pub_parents(p):
    Prv, Pub = _impl()
    rp = ref_parent(p)
    vprv, vpub = versions(p["testnet"])
    kw = dict(chain_code=p["c"], index=p["index"], depth=p["depth"], testnet=p["testnet"],
              parent_fingerprint=p["pfp"])
    prv = Prv(key=p["k"].to_bytes(32, "big"), **kw)
    return prv, [
        ("constructed", Pub(key=rp.sec(), **kw)),
        ("parsed-ref-xpub", Pub.parse(rp.xpub(vpub), testnet=p["testnet"])),
        ("parsed-own-xpub", Pub.parse(prv.extended_public_key(), testnet=p["testnet"])),
        # the same key exported under a SLIP-132 flavour (ypub/zpub/upub/vpub): flavour is presentation, not key material
        ("parsed-slip132-xpub", Pub.parse(rp.xpub(R.VERSION_OF[("pub", p["testnet"], 84 if p["k"] & 1 else 49)]), testnet=p["testnet"])),
        # built from a mutable buffer the caller keeps
        ("constructed-bytearray", Pub(key=bytearray(rp.sec()), **dict(kw, chain_code=bytearray(p["c"])))),
        # an application's own public node class, loaded through the inherited parser
        ("subclass-parsed", type("AppPubNode", (Pub,), {}).parse(rp.xpub(vpub), testnet=p["testnet"])),
        # the root of a watch-only wallet built from the string (the network comes from the version prefix)
        ("watch-only-wallet-root", __import__("btc_hd_wallet.base_wallet", fromlist=["BaseWallet"]).BaseWallet.from_extended_key(rp.xpub(vpub)).master),
    ]


def compare_pub(sig, what, node, ref, testnet, prv_node=None):
    _, vpub = versions(testnet)
    st_, sec = call(lambda: node.public_key.sec())
    if st_ == "exc":
        raise Violation(sig + "/public-key-unusable", "%s: public_key.sec() raised %r (key field %s)" % (
            what, sec, bytes(node.key).hex()))
    expect_eq(sig + "/public-key", what + " public key", sec, ref.sec())
    expect_eq(sig + "/key-field", what + " key field", bytes(node.key), ref.sec())
    expect_eq(sig + "/chain-code", what + " chain code", bytes(node.chain_code), ref.c)
    expect_eq(sig + "/depth", what + " depth", node.depth, ref.depth)
    expect_eq(sig + "/child-number", what + " child number", node.index, ref.index)
    st_, fp = call(node.fingerprint)
    if st_ == "exc" or bytes(fp) != ref.fingerprint():
        raise Violation(sig + "/fingerprint", "%s fingerprint %r, expected %s" % (what, fp, ref.fingerprint().hex()))
    st_, pfp = call(lambda: node.parent_fingerprint)
    if st_ == "exc" or bytes(pfp) != ref.pfp:
        raise Violation(sig + "/parent-fingerprint", "%s parent fingerprint %r, expected %s" % (what, pfp, ref.pfp.hex()))
    st_, xpub = call(node.extended_public_key)
    if st_ == "exc" or xpub != ref.xpub(vpub):
        raise Violation(sig + "/xpub-string", "%s extended_public_key() = %r, expected %s" % (what, xpub, ref.xpub(vpub)))
    if prv_node is not None:
        # the statement's own relation: private derivation with the private part dropped
        st_, x2 = call(prv_node.extended_public_key)
        if st_ == "exc" or x2 != xpub:
            raise Violation(sig + "/differs-from-private-derivation", "%s: %r vs private side %r" % (what, xpub, x2))
        if bytes(prv_node.chain_code) != bytes(node.chain_code) or prv_node.fingerprint() != node.fingerprint():
            raise Violation(sig + "/differs-from-private-derivation", "%s chain code / fingerprint differ" % what)


def check_path(case, ctx):
    p = case["parent"]
    path = list(case["path"])[: 255 - p["depth"]]
    rp = ref_parent(p)
    refs = []
    node = rp.neuter()
    try:
        for i in path:
            node = R.ckd_pub(node, i)
            refs.append(node)
    except R.Invalid:
        ctx.count("invalid-child-skipped")
        return
    prv, pubs = pub_parents(p)
    prv_nodes = []
    cur = prv
    for i in path:
        cur = cur.ckd(i)
        prv_nodes.append(cur)
    for form, root in pubs:
        compare_pub("C02/root", "%s public parent" % form, root, rp.neuter(), p["testnet"], prv)
        cur = root
        for lvl, i in enumerate(path):
            st_, cur = call(cur.ckd, index=i) if form == "parsed-ref-xpub" else call(cur.ckd, i)
            if st_ == "exc":
                raise Violation("C02/path/raised", "%s parent: public ckd(%d) at level %d raised %r" % (form, i, lvl, cur))
            compare_pub("C02/path", "%s parent, path %s level %d" % (form, R.fmt_path(path, "M"), lvl + 1),
                        cur, refs[lvl], p["testnet"], prv_nodes[lvl])
        if path:
            compare_pub("C02/root-after-derivation", "%s public parent after %d derivation step(s)" % (form, len(path)), root, rp.neuter(), p["testnet"], prv)
    if path:
        # the first child built with the public constructor and `parent=` a node object that has derived nothing itself
        Prv, Pub = _impl()
        bare = pub_parents(p)[1][0][1]
        st_, built = call(Pub, key=refs[0].sec(), chain_code=refs[0].c, index=path[0], depth=p["depth"] + 1,
                          testnet=p["testnet"], parent=bare)
        if st_ == "ok":
            compare_pub("C02/constructed-with-parent", "node constructed with parent=<public node without recorded children>",
                        built, refs[0], p["testnet"], prv_nodes[0])
            cur = built
            for lvl, i in enumerate(path[1:3], 1):
                st_, cur = call(cur.ckd, i)
                if st_ == "exc":
                    raise Violation("C02/path/raised", "constructed node: public ckd(%d) raised %r" % (i, cur))
                compare_pub("C02/constructed-with-parent", "below a node constructed with parent=<node>, level %d" % (lvl + 1),
                            cur, refs[lvl], p["testnet"], prv_nodes[lvl])
    if path:
        # one caller-owned buffer refilled in place for two successive parents (no other library call in between)
        Prv, Pub = _impl()
        kw_ = dict(chain_code=p["c"], index=p["index"], depth=p["depth"], testnet=p["testnet"], parent_fingerprint=p["pfp"])
        buf = bytearray(refs[0].sec())
        first = Pub(key=buf, **kw_)
        call(first.generate_children, (path[0], path[0] + 1))
        buf[:] = rp.sec()
        second = Pub(key=buf, **kw_)
        st_, kids = call(second.generate_children, (path[0], path[0] + 1))
        if st_ == "exc" or len(kids) != 1:
            raise Violation("C02/path/raised", "parent built from a refilled bytearray: generate_children gave %r" % (kids,))
        compare_pub("C02/refilled-buffer", "second parent built from one bytearray refilled in place, child %d" % path[0], kids[0], refs[0],
                    p["testnet"], prv_nodes[0])
        ctx.count("refilled-buffer-parents")
    if not case.get("_sibling") and p["k"] % 4 == 0:
        # bulk requests whose exclusive END is 2^31 (or beyond with a step): every generated index is still normal
        for iv in ((H - 2, H), (H - 1, H), (H - 3, H + 1, 2) if p["k"] % 8 == 0 else (H - 2, H)):
            form, root = pubs[(p["k"] // 8) % len(pubs)]
            fresh_prv = pub_parents(p)[0]
            st_p, kids_p = call(fresh_prv.generate_children, iv)
            st_, kids = call(dict(pub_parents(p)[1])[form].generate_children, iv)
            if st_p == "exc":
                continue
            idxs = list(range(*iv))
            if st_ == "exc" or [k_.index for k_ in kids] != idxs:
                raise Violation("C02/bulk/normal-interval-ending-at-2^31", "%s public parent: generate_children(%r) (indexes %r, all "
                                "normal) gave %r; the private side returns %d children" % (form, iv, idxs, kids if st_ == "exc" else [k_.index for k_ in kids], len(kids_p)))
            for k_pub, k_prv, i_ in zip(kids, kids_p, idxs):
                try:
                    rc_ = R.ckd_pub(rp.neuter(), i_)
                except R.Invalid:
                    continue
                compare_pub("C02/bulk", "%s parent, bulk child %d of %r" % (form, i_, iv), k_pub, rc_, p["testnet"], k_prv)
        ctx.count("bulk-intervals-ending-at-2^31")
    if path and not case.get("_sibling"):
        # the parent whose public key has the same x and the other parity (scalar n - k), in the same process
        check_path({"parent": dict(p, k=S.N - p["k"]), "path": path[:2], "_sibling": True}, ctx)
    if path:
        for label, arg in (("iterator", iter(list(path))), ("generator", (i for i in list(path))), ("tuple", tuple(path))):
            st_, end = call(pub_parents(p)[1][1][1].derive_path, arg)
            if st_ == "exc":
                ctx.count("derive_path-refuses-%s (not judged)" % label)
            else:
                compare_pub("C02/derive_path-%s" % label, "derive_path(<%s> %s)" % (label, R.fmt_path(path, "M")), end, refs[-1],
                            p["testnet"])
        fresh = pub_parents(p)[1][0][1]
        st_, end = call(fresh.derive_path, list(path))
        if st_ == "exc":
            raise Violation("C02/path/raised", "derive_path(%r) raised %r" % (path, end))
        compare_pub("C02/derive_path", "derive_path(%s)" % R.fmt_path(path, "M"), end, refs[-1], p["testnet"])


def nt_path(case):
    p = case["parent"]
    return len(case["path"]) >= 1 and (p["depth"] > 0 or S.scalar_class(p["k"]) != "uniform"
                                       or any(i in (0, 1, H - 1) for i in case["path"]))


# ---------------------------------------------------------------------------- refusal
def check_refusal(case, ctx):
    p = case["parent"]
    if p["depth"] + len(case["prefix"]) > 255:
        case = dict(case, prefix=list(case["prefix"])[: 255 - p["depth"]])
    prv, pubs = pub_parents(p)
    path = list(case["prefix"]) + [case["hard"]] + list(case["suffix"])
    # the private twin derives the very same hardened child first (same process)
    tw = prv
    for i in case["prefix"]:
        tw = tw.ckd(i)
    call(tw.ckd, case["hard"])
    for form, root in pubs:
        node = root
        for i in case["prefix"]:
            node = node.ckd(i)
        before = len(getattr(node, "children", ()))
        st_, v = call(node.ckd, case["hard"])
        if st_ == "ok":
            raise Violation("C02/refusal/ckd-returned", "%s public node: ckd(%d) returned a node with key %s"
                            % (form, case["hard"], bytes(getattr(v, "key", b"")).hex()))
        if len(getattr(node, "children", ())) != before:
            raise Violation("C02/refusal/child-recorded", "refused ckd(%d) still added a child" % case["hard"])
        fresh = dict(pub_parents(p)[1])[form]
        st_, v = call(fresh.derive_path, path)
        if st_ == "ok":
            raise Violation("C02/refusal/derive_path-returned", "%s public node: derive_path(%r) returned %r"
                            % (form, path, v))
        for iv in ((case["hard"], case["hard"] + 1), (H - 1, H + 1), (max(H, case["hard"] - 1), min(2 ** 32, case["hard"] + 2))):
            fresh2 = dict(pub_parents(p)[1])[form]
            st_, v = call(fresh2.generate_children, interval=iv)
            if st_ == "ok" and any(getattr(n_, "index", 0) >= H for n_ in v):
                raise Violation("C02/refusal/generate_children-returned", "generate_children(%r) on a public node returned "
                                "%d nodes incl. hardened ones" % (iv, len(v)))
    # public-only data held by the private node class (parse is shared by both classes; the wallet constructor and BIP85
    # accept any node object): a hardened child must still never come out
    Prv, Pub = _impl()
    rp = ref_parent(p)
    xpub = rp.xpub(versions(p["testnet"])[1])
    kw = dict(chain_code=p["c"], index=p["index"], depth=p["depth"], testnet=p["testnet"], parent_fingerprint=p["pfp"])
    loaders = [("PrvKeyNode.parse(xpub)", lambda: Prv.parse(xpub, p["testnet"])),
               ("PrvKeyNode(key=<SEC public key>)", lambda: Prv(key=rp.sec(), **kw))]
    for label, load in loaders:
        st_, holder = call(load)
        if st_ == "exc":
            ctx.count("private-class-refuses-public-data")
            continue
        for how in ("ckd", "derive_path", "generate_children", "wallet.by_path", "bip85"):
            st_, holder = call(load)
            if st_ == "exc":
                break
            if how == "ckd":
                st_, v = call(holder.ckd, case["hard"])
            elif how == "derive_path":
                st_, v = call(holder.derive_path, [case["hard"]] + list(case["suffix"])[:1])
            elif how == "generate_children":
                st_, v = call(holder.generate_children, (case["hard"], min(2 ** 32, case["hard"] + 2)))
                if st_ == "ok" and not v:
                    st_ = "exc"
            elif how == "wallet.by_path":
                from btc_hd_wallet.base_wallet import BaseWallet
                st_, w = call(BaseWallet, master=holder, testnet=p["testnet"])
                if st_ == "exc":
                    continue
                st_, v = call(w.by_path, "m/%d'" % (case["hard"] - H))
            else:
                from btc_hd_wallet.bip85 import BIP85DeterministicEntropy
                st_, b = call(BIP85DeterministicEntropy, master_node=holder)
                if st_ == "exc":
                    continue
                st_, v = call(b.entropy, "m/83696968'/%d'" % (case["hard"] - H))
            if st_ == "ok" and v is not None:
                raise Violation("C02/refusal/public-data-in-private-class[%s]" % how, "%s then %s with hardened index %d "
                                "returned %r instead of refusing" % (label, how, case["hard"], v))
            ctx.count("public-data-in-private-class refused")


# ---------------------------------------------------------------------------- leading-zero children
def enum_lz(tier):
    n = 6 if tier == "quick" else 40
    for j in range(n):
        yield {"k": (0xC0FFEE + 7919 * j) * 2 ** 64 + j + 1, "c": bytes([j + 1]) * 32, "testnet": bool(j & 1)}


def check_lz(case, ctx):
    """Search (with the reference) the first normal index whose child public key has x < 2^248."""
    p = {"k": case["k"], "c": case["c"], "depth": 0, "index": 0, "pfp": b"\x00" * 4, "testnet": case["testnet"]}
    rp = ref_parent(p).neuter()
    found = None
    for i in range(0, 4000):
        ch = R.ckd_pub(rp, i)
        if ch.pt[0] < (1 << 248):
            found = i
            break
    if found is None:
        ctx.count("no-leading-zero-child-found")
        return
    ctx.count("leading-zero-child-found")
    check_path({"parent": p, "path": [found, 0]}, ctx)
    check_path({"parent": p, "path": [found]}, ctx)


# ---------------------------------------------------------------------------- public derivation from several threads
def check_threads(case, ctx):
    from vlib.sched import Scheduler
    import btc_hd_wallet.bip32 as m32
    import btc_hd_wallet.keys as mk
    import btc_hd_wallet.helper as mh
    Prv, Pub = _impl()
    parents_ = [case["parent"]] + ([dict(case["parent"], k=S.N - case["parent"]["k"])] if case["two_parents"] else [])
    roots = []
    for p in parents_:
        rp = ref_parent(p)
        roots.append((rp.neuter(), Pub(key=rp.sec(), chain_code=p["c"], index=p["index"], depth=min(p["depth"], 250),
                                       testnet=p["testnet"], parent_fingerprint=p["pfp"])))

    def runner(t, idxs):
        rref, root = roots[t % len(roots)]

        def run():
            out = []
            for i in idxs:
                st_, ch = call(root.ckd, i)
                out.append((bytes(ch.key), bytes(ch.chain_code), ch.index) if st_ == "ok" else ("EXC", repr(ch)))
            return out
        return run
    sched = Scheduler([tuple(x) for x in case["plan"]], [m32.__file__, mk.__file__, mh.__file__])
    results, errors = sched.run([runner(t, idxs) for t, idxs in enumerate(case["threads"])])
    ctx.count("switches", sched.switches)
    ctx.nontrivial = sched.switches >= 2
    for t, idxs in enumerate(case["threads"]):
        if t in errors:
            raise Violation("C02/threads/crashed", "thread %d raised %r" % (t, errors[t]))
        rref = roots[t % len(roots)][0]
        rref = R.Node(None, rref.pt, rref.c, min(case["parent"]["depth"], 250), rref.index, rref.pfp)
        for j, i in enumerate(idxs):
            try:
                want = R.ckd_pub(rref, i)
            except R.Invalid:
                continue
            if results[t][j] != (want.sec(), want.c, i):
                raise Violation("C02/threads/child-differs", "with %d threads deriving publicly at once, child %d of thread %d "
                                "is %r, expected key %s" % (len(case["threads"]), i, t, results[t][j], want.sec().hex()))


# ---------------------------------------------------------------------------- parents whose fingerprints collide
import json as _json
import os as _os
with open(_os.path.join(_os.path.dirname(_os.path.dirname(_os.path.abspath(__file__))), "ref", "fpcollide.json")) as _f:
    FP_PAIRS = _json.load(_f)       # pairs of scalars whose compressed public keys share HASH160[:4] (found by search)


def enum_fp(tier):
    for j, pr in enumerate(FP_PAIRS if tier != "quick" else FP_PAIRS[:3]):
        for order in (0, 1):
            yield {"k": [pr["k1"], pr["k2"]] if order == 0 else [pr["k2"], pr["k1"]], "fp": pr["fingerprint"],
                   "testnet": bool(j & 1), "path": [[0], [1, H - 1]][order]}


def check_fp(case, ctx):
    """BIP32 notes that fingerprints can collide: two different public parents with the SAME 4-byte fingerprint are used
    one after the other in one process; each must derive its own children."""
    for n_, k in enumerate(case["k"]):
        p = {"k": k, "c": bytes([n_ + 1]) * 32, "depth": 2, "index": 7, "pfp": b"\x0a\x0b\x0c\x0d", "testnet": case["testnet"]}
        rp = ref_parent(p)
        if rp.fingerprint().hex() != case["fp"]:
            raise RuntimeError("table entry does not collide")
        check_path({"parent": p, "path": list(case["path"]), "_sibling": True}, ctx)
    ctx.count("colliding-parents", 2)


def clauses():
    return [
        Clause("path", check_path,
               "index lists of length 0..6 over [0, 2^31) ({0,1,2^31-1} and uniform); after every step: SEC key, key "
               "field, chain code, depth, child number, fingerprint, parent fingerprint, xpub string against the "
               "reference and against the implementation's private derivation; non-trivial = length >= 1 and (parent "
               "depth > 0, non-uniform scalar, or boundary index)",
               gen=lambda tier: st.fixed_dictionaries({"parent": parents(),
                                                       "path": st.lists(S.normal_indexes(), max_size=6)}),
               nontrivial=nt_path, classes=lambda c: ["len=%d" % min(len(c["path"]), 4)],
               n={"quick": 800, "thorough": 30000}, shards={"quick": 16, "thorough": 16}),
        Clause("refusal", check_refusal,
               "a hardened index (2^31, 2^31+1, 2^32-1, uniform) directly or inside an index list after a normal "
               "prefix: ckd / derive_path / generate_children on public-only nodes must raise and record no child; "
               "every case is non-trivial",
               gen=lambda tier: st.fixed_dictionaries({
                   "parent": st.one_of(parents(), parents().map(lambda d: dict(d, depth=255, index=d["index"] or 1,
                                                                                   pfp=d["pfp"] if d["depth"] else b"\x01\x02\x03\x04"))),
                   "prefix": st.lists(S.normal_indexes(), max_size=2),
                   "hard": S.hardened_indexes(), "suffix": st.lists(S.normal_indexes(), max_size=2)}),
               classes=lambda c: ["boundary" if c["hard"] in (H, H + 1, 2 ** 32 - 1) else "uniform"],
               n={"quick": 900, "thorough": 40000}, shards={"quick": 16, "thorough": 16}),
        Clause("threads", check_threads,
               "2..3 threads derive 1..3 normal children each from one shared public node (or from the two nodes k / n-k) "
               "under the deterministic line-granularity scheduler (bip32.py, keys.py, helper.py traced); every child must "
               "equal independent CKDpub; non-trivial = >= 2 thread switches (measured)",
               gen=lambda tier: st.fixed_dictionaries({
                   "parent": parents(), "two_parents": st.booleans(),
                   "threads": st.lists(st.lists(S.normal_indexes(), min_size=1, max_size=3), min_size=2, max_size=3),
                   "plan": st.lists(st.tuples(st.integers(0, 2), st.integers(1, 10)), min_size=3, max_size=50)}),
               n={"quick": 200, "thorough": 8000}, shards={"quick": 16, "thorough": 16}),
        Clause("leading-zero-children", check_lz,
               "for fixed parents the reference searches the first index whose child public key has a leading zero "
               "byte in x (1 in 256) and that child is derived publicly, then derived from again",
               enum=enum_lz, enum_desc="6 (quick) / 40 (thorough) parents, first leading-zero child each",
               shards={"quick": 6, "thorough": 16}),
        Clause("fingerprint-collision", check_fp,
               "frozen table of scalar pairs whose public keys share the 4-byte fingerprint (found by a search over 135,000 "
               "consecutive keys): both parents are used one after the other in one process, in both orders, and each is "
               "judged exactly as in `path`",
               enum=enum_fp, exhaustive=True, enum_desc="3 (quick) / 4 (thorough) colliding pairs x 2 orders",
               nontrivial=lambda c: True, shards={"quick": 6, "thorough": 8}),
    ]
