"""C19 — Script and varint wire encodings round-trip with standard minimal pushes."""
from io import BytesIO

from hypothesis import strategies as st

from vlib.engine import Clause, Violation
from vlib.ref import script as R
from vlib.util import call, expect_eq, must_raise, must_return

PROPERTY_ID = "C19"
OPTIMIZED = ['push-lengths', 'prefixes', 'binary', 'varint', 'scripts', 'edits', 'non-minimal']   # clauses run a second time under `python -O` (assert statements stripped)
RULE = ("scripts are lists of opcodes (bytes that are not push prefixes) and data elements "
        "described as (length, start, step) and expanded deterministically; parser inputs are "
        "prefixes / edits of valid serialisations and arbitrary byte strings")
ASSUMPTIONS = ["opcode domain is {0} u {79..255}; element sizes 1..520 are the judged domain; "
               "zero-length elements and non-minimal varints on the decoding side are not judged"]

THRESH = [1, 2, 74, 75, 76, 77, 78, 254, 255, 256, 257, 519, 520]
OPCODES = [0] + list(range(79, 256))


def _impl():
    from btc_hd_wallet.script import Script
    from btc_hd_wallet import helper
    return Script, helper


def expand(cmd):
    if cmd[0] == "op":
        return cmd[1]
    _, n, a, b = cmd
    return bytes(((a + i * b) & 0xFF) for i in range(n))


def _elem(sizes):
    return st.tuples(st.just("data"), sizes, st.integers(0, 255), st.integers(0, 255))


def _op():
    return st.tuples(st.just("op"), st.sampled_from(OPCODES))


def _sizes():
    return st.one_of(st.sampled_from(THRESH), st.integers(1, 520), st.integers(1, 80))


def _script_cmds(max_size=12):
    return st.lists(st.one_of(_op(), _elem(_sizes())), max_size=max_size)


def _big_script_cmds():
    # enough large elements for the total to pass 0xffff (varint fd -> fe band)
    return st.lists(_elem(st.integers(500, 520)), min_size=127, max_size=132)


# ------------------------------------------------------------------ clause: single push lengths
def _near_standard_cmds():
    """Scripts with the length and the first / last opcodes of a standard output template (P2PKH 25, P2SH 23, P2WPKH 22, P2WSH 34
    bytes) whose middle is NOT the single hash push: the push is split, shortened next to an opcode, or replaced by opcodes."""
    def build(tmpl, a, fa, fb, how):
        head, n, tail = {"p2pkh": ([0x76, 0xA9], 20, [0x88, 0xAC]), "p2sh": ([0xA9], 20, [0x87]),
                         "p2wpkh": ([0], 20, []), "p2wsh": ([0], 32, [])}[tmpl]
        a = 1 + a % (n - 2)
        if how == 0:       # two pushes with the same total encoded length as the one push: (1+a) + (1+n-1-a) = n+1
            mid = [["data", a, fa, fb], ["data", n - 1 - a, fb, fa]]
        elif how == 1:     # a push one byte shorter followed by an opcode
            mid = [["data", n - 1, fa, fb], ["op", 0xAC]]
        elif how == 2:     # an opcode followed by a push one byte shorter
            mid = [["op", 0x76], ["data", n - 1, fa, fb]]
        else:              # the genuine template
            mid = [["data", n, fa, fb]]
        return [["op", o] for o in head] + mid + [["op", o] for o in tail]
    return st.builds(build, st.sampled_from(["p2pkh", "p2sh", "p2wpkh", "p2wsh"]), st.integers(0, 40), st.integers(0, 255),
                     st.integers(0, 255), st.integers(0, 3))


def enum_push(tier):
    fills = [(0, 0), (0x4C, 0), (0xFF, 0), (1, 1), (0x4D, 3)]
    for L in list(range(0, 523)) + [600, 65535, 65536, 70000]:
        for fi, (a, b) in enumerate(fills if tier == "thorough" else fills[:3]):
            yield {"cmds": [["data", L, a, b]]}
        yield {"cmds": [["op", 0x76], ["data", L, 7, 5], ["op", 0xAC]]}


def check_roundtrip(case, ctx):
    Script, helper = _impl()
    cmds = [expand(tuple(c)) for c in case["cmds"]]
    lens = [len(c) for c in cmds if not isinstance(c, int)]
    if any(n == 0 for n in lens):
        ctx.count("zero-length-element-not-judged")
        call(lambda: Script(list(cmds)).raw_serialize())
        return
    sc = Script(list(cmds))
    if any(n > 520 for n in lens):
        must_raise("C19/serialize/oversize-accepted", "raw_serialize with element > 520 bytes",
                   sc.raw_serialize)
        must_raise("C19/serialize/oversize-accepted", "serialize with element > 520 bytes",
                   sc.serialize)
        return
    want_raw = R.raw_serialize(cmds)
    raw = must_return("C19/serialize/refused-valid", "raw_serialize of elements %s" % lens[:8],
                      sc.raw_serialize)
    expect_eq("C19/serialize/raw-bytes-differ", "raw_serialize (element lengths %s)" % lens[:8],
              raw, want_raw)
    want = R.serialize(cmds)
    ser = must_return("C19/serialize/refused-valid", "serialize", sc.serialize)
    expect_eq("C19/serialize/bytes-differ", "serialize", ser, want)
    stream = BytesIO(ser)
    back = must_return("C19/parse/refused-valid", "Script.parse(serialize(s)), lens %s" % lens[:8],
                       Script.parse, **({"s": stream} if len(ser) % 2 else {})) if len(ser) % 2 else \
        must_return("C19/parse/refused-valid", "Script.parse(serialize(s)), lens %s" % lens[:8], Script.parse, stream)
    if back.cmds != cmds or not (back == sc):
        raise Violation("C19/parse/roundtrip-differs",
                        "parse(serialize(s)) != s: lens %s got %r" % (lens[:8], [
                            c if isinstance(c, int) else len(c) for c in back.cmds][:12]))
    expect_eq("C19/parse/position", "stream position after parse", stream.tell(), len(ser))
    # the command list is edited in place after the first serialisation
    sc.cmds.append(0xAC)
    sc.cmds.insert(0, b"\x07")
    raw2 = must_return("C19/serialize/refused-valid", "raw_serialize after editing cmds in place", sc.raw_serialize)
    expect_eq("C19/serialize/stale-after-edit", "raw_serialize after cmds was edited in place", raw2,
              R.raw_serialize([b"\x07"] + cmds + [0xAC]))
    # scripts that start empty and are filled by the caller; a later empty script is still empty
    e1 = Script()
    if e1.cmds:
        raise Violation("C19/serialize/empty-script-shares-state", "a fresh Script() already holds %d commands: %r" % (len(e1.cmds), _summ(e1.cmds)))
    for c in cmds:
        e1.cmds.append(c)
    e2 = Script()
    raw_e1 = must_return("C19/serialize/refused-valid", "raw_serialize of a script built up from Script()", e1.raw_serialize)
    raw_e2 = must_return("C19/serialize/refused-valid", "raw_serialize of a fresh Script()", e2.raw_serialize)
    leaked = bool(e2.cmds)
    if leaked:
        del e2.cmds[:]          # keep the damage of a shared default list bounded before reporting it
    if raw_e1 != want_raw or raw_e2 != b"" or leaked or e2.serialize() != b"\x00":
        raise Violation("C19/serialize/empty-script-shares-state", "Script() filled with %d commands serialises to %d bytes (expected %d); a "
                        "Script() created afterwards %s and serialised to %s (expected nothing)" % (
                            len(cmds), len(raw_e1), len(want_raw), "held commands already" if leaked else "was empty", raw_e2.hex()[:40]))
    # trailing bytes must not be swallowed or change the result
    stream = BytesIO(ser + b"\x51\x00")
    back2 = must_return("C19/parse/refused-valid", "parse with trailing bytes", Script.parse, stream)
    if back2.cmds != cmds or stream.tell() != len(ser):
        raise Violation("C19/parse/trailing-bytes", "trailing bytes changed the parse (pos %d want %d)"
                        % (stream.tell(), len(ser)))


def nt_roundtrip(case):
    for c in case["cmds"]:
        if c[0] == "data" and (c[1] in THRESH or c[1] > 520 or c[1] in (521, 522)):
            return True
    return False


def classes_roundtrip(case):
    out = set()
    total = 0
    for c in case["cmds"]:
        if c[0] == "data":
            n = c[1]
            total += n
            out.add("bare" if n <= 75 else "pushdata1" if n <= 255 else "pushdata2" if n <= 520 else "oversize")
        else:
            out.add("opcode")
    if total > 0xFFFF:
        out.add("total>0xffff")
    elif total >= 0xFD:
        out.add("total>=0xfd")
    return out


# ------------------------------------------------------------------ clause: parser on hostile input
def _general_oracle(buf, ctx, sig_prefix):
    Script, helper = _impl()
    stream = BytesIO(buf)
    st_, val = call(Script.parse, stream)
    try:
        want, consumed = R.strict_parse(buf)
        strict_ok = True
    except (R.Short, ValueError):
        strict_ok = False
    if st_ == "exc":
        ctx.count("rejected")
        if strict_ok:
            ctx.count("rejected-though-strictly-wellformed")
        return strict_ok
    ctx.count("accepted")
    if not strict_ok:
        raise Violation(sig_prefix + "/accepted-malformed",
                        "Script.parse accepted %s (%d bytes) -> %r but the stream does not contain "
                        "the declared bytes" % (buf[:40].hex(), len(buf), _summ(val.cmds)))
    if val.cmds != want:
        raise Violation(sig_prefix + "/wrong-commands", "parse(%s) = %r, strict parser %r"
                        % (buf[:40].hex(), _summ(val.cmds), _summ(want)))
    if stream.tell() != consumed:
        raise Violation(sig_prefix + "/position", "consumed %d bytes, declared %d" % (stream.tell(), consumed))
    # whatever push forms the input used, the parsed script serialises with the standard minimal ones
    if all(isinstance(c, int) and c in OPCODES or (not isinstance(c, int) and 1 <= len(c) <= 520) for c in want):
        st2, raw = call(val.raw_serialize)
        if st2 == "exc" or raw != R.raw_serialize(want):
            raise Violation(sig_prefix + "/reserialise-not-minimal", "the script parsed from %s re-serialises as %r, the "
                            "standard encoding is %s" % (buf[:40].hex(), raw.hex() if isinstance(raw, bytes) else raw,
                                                         R.raw_serialize(want).hex()[:80]))
    return True


def _summ(cmds):
    return [c if isinstance(c, int) else "<%d bytes>" % len(c) for c in cmds][:10]


def check_prefixes(case, ctx):
    cmds = [expand(tuple(c)) for c in case["cmds"]]
    ser = R.serialize(cmds)
    cuts = case.get("cuts")
    if cuts is None:
        cuts = range(len(ser))
    for cut in cuts:
        cut = cut % max(1, len(ser))
        _general_oracle(ser[:cut], ctx, "C19/truncated")


def check_edits(case, ctx):
    cmds = [expand(tuple(c)) for c in case["cmds"]]
    ser = bytearray(R.serialize(cmds))
    for (kind, pos, val) in case["edits"]:
        if not ser:
            break
        pos %= len(ser)
        if kind == "set":
            ser[pos] = val
        elif kind == "inc":
            ser[pos] = (ser[pos] + 1) & 0xFF
        elif kind == "dec":
            ser[pos] = (ser[pos] - 1) & 0xFF
        elif kind == "del":
            del ser[pos]
        elif kind == "ins":
            ser.insert(pos, val)
        elif kind == "cut":
            del ser[pos:]
    _general_oracle(bytes(ser), ctx, "C19/edited")


def check_binary(case, ctx):
    _general_oracle(case["buf"], ctx, "C19/binary")


def gen_edits(tier):
    edit = st.tuples(st.sampled_from(["set", "inc", "dec", "del", "ins", "cut"]),
                     st.integers(0, 4000), st.integers(0, 255))
    return st.fixed_dictionaries({"cmds": _script_cmds(6), "edits": st.lists(edit, min_size=1, max_size=3)})


def gen_binary(tier):
    head = st.sampled_from([b"", b"\x01", b"\x02", b"\x03", b"\x0b", b"\xfd", b"\xfe", b"\xff",
                            b"\xfd\x03\x00", b"\x05\x4c", b"\x05\x4d", b"\x4c", b"\x4d"])
    return st.fixed_dictionaries({"buf": st.builds(lambda h, t: h + t, head, st.binary(max_size=40))})


# ------------------------------------------------------------------ clause: well-formed but non-minimal encodings
def gen_nonminimal(tier):
    data = lambda lo, hi: st.integers(lo, hi).flatmap(lambda n: st.binary(min_size=n, max_size=n))   # noqa: E731
    tok = st.one_of(
        st.sampled_from(sorted(OPCODES)).map(lambda o: bytes([o])),
        data(1, 75).map(lambda d: bytes([len(d)]) + d),
        # PUSHDATA1 / PUSHDATA2 with any length they can carry, including 0 and lengths a shorter form would hold
        st.one_of(st.just(b""), data(0, 3), data(0, 80), data(76, 255)).map(lambda d: b"\x4c" + bytes([len(d)]) + d),
        st.one_of(st.just(b""), data(0, 3), data(0, 300), data(256, 520)).map(lambda d: b"\x4d" + len(d).to_bytes(2, "little") + d),
    )
    return st.fixed_dictionaries({"toks": st.lists(tok, min_size=1, max_size=6), "cut": st.one_of(st.none(), st.integers(0, 40))})


def check_nonminimal(case, ctx):
    raw = b"".join(case["toks"])
    buf = R.encode_varint(len(raw)) + raw
    if case["cut"] is not None:
        buf = buf[: max(0, len(buf) - 1 - case["cut"] % len(buf))]
    _general_oracle(buf, ctx, "C19/non-minimal")


# ------------------------------------------------------------------ clause: varints
VAR_BOUNDS = [0, 1, 0xFC, 0xFD, 0xFE, 0xFF, 0x100, 0xFFFF, 0x10000, 0x10001, 0xFFFFFFFF, 2 ** 32,
              2 ** 32 + 1, 2 ** 63, 2 ** 64 - 2, 2 ** 64 - 1]
VAR_REFUSED = [2 ** 64, 2 ** 64 + 1, 2 ** 65, 2 ** 80, 2 ** 128]


def enum_varint(tier):
    for v in VAR_BOUNDS + VAR_REFUSED:
        yield {"v": v}


def gen_varint(tier):
    return st.fixed_dictionaries({"v": st.one_of(
        st.integers(0, 0xFC), st.integers(0xFD, 0xFFFF), st.integers(0x10000, 0xFFFFFFFF),
        st.integers(2 ** 32, 2 ** 64 - 1), st.integers(2 ** 64, 2 ** 72))})


def check_varint(case, ctx):
    Script, helper = _impl()
    v = case["v"]
    if v >= 2 ** 64:
        must_raise("C19/varint/oversize-accepted", "encode_varint(%d)" % v, helper.encode_varint, v)
        return
    want = R.encode_varint(v)
    got = must_return("C19/varint/refused-valid", "encode_varint(%d)" % v, helper.encode_varint, v)
    expect_eq("C19/varint/encoding", "encode_varint(%d)" % v, got, want)
    s = BytesIO(want + b"\xaa")
    back = must_return("C19/varint/refused-valid", "read_varint", helper.read_varint, s)
    expect_eq("C19/varint/roundtrip", "read_varint(encode_varint(%d))" % v, back, v)
    expect_eq("C19/varint/position", "bytes consumed by read_varint", s.tell(), len(want))
    for cut in range(len(want)):
        st_, val = call(helper.read_varint, BytesIO(want[:cut]))
        if st_ == "ok":
            raise Violation("C19/varint/truncated-accepted", "read_varint(%s) (truncated encoding of %d) "
                            "returned %r" % (want[:cut].hex(), v, val))


def nt_varint(case):
    v = case["v"]
    return any(abs(v - b) <= 1 for b in (0xFC, 0xFFFF, 0xFFFFFFFF, 2 ** 64 - 1, 2 ** 64)) or v >= 2 ** 64


def check_fuzz(case, ctx):
    """Byte-level oracle for coverage-guided fuzzing: Script.parse and read_varint on raw bytes."""
    Script, helper = _impl()
    data = case["data"]
    _general_oracle(data, ctx, "C19/fuzz")
    # read_varint alone
    st_, val = call(helper.read_varint, BytesIO(data))
    need = {0xFD: 3, 0xFE: 5, 0xFF: 9}.get(data[0], 1) if data else 1
    if len(data) < need:
        if st_ == "ok":
            raise Violation("C19/fuzz/varint-truncated-accepted", "read_varint(%s) returned %r" % (data.hex(), val))
    else:
        want = data[0] if need == 1 else int.from_bytes(data[1:need], "little")
        canonical = need == 1 or want >= {3: 0xFD, 5: 0x10000, 9: 0x100000000}[need]
        if st_ == "exc" and not canonical:
            ctx.count("non-canonical-varint-rejected (not judged)")
        elif st_ == "exc" or val != want:
            raise Violation("C19/fuzz/varint-value", "read_varint(%s) -> %r, expected %d" % (data[:9].hex(), val, want))


FUZZ_CORPUS = [R.serialize([0x76, 0xA9, b"\x11" * 20, 0x88, 0xAC]), R.serialize([0x00, b"\x22" * 32]),
               R.serialize([0x51, b"\x02" * 33, 0x51, 0xAE]), R.serialize([b"a" * 76]), R.serialize([b"b" * 256]),
               b"\xfd\x03\x00\x02\x01\x02"]


# ------------------------------------------------------------------------------------ first use from several threads
def _cold_build(it):
    from vlib.cold import enc
    kind, cmds, v = it
    if kind == "varint":
        return (["helper", "encode_varint", [v]], enc(R.encode_varint(v)), "encode_varint(%d)" % v)
    cmds = list(cmds)
    return (["script", "Script", [[enc(c) if isinstance(c, bytes) else c for c in cmds]], [["serialize", []]]], enc(R.serialize(cmds)),
            "Script(%d commands).serialize()" % len(cmds))


def clauses():
    return [
        Clause("push-lengths", check_roundtrip,
               "every single-element script with element length 0..522 (+600, 65535, 65536, 70000), "
               "3-5 fill patterns, bare and wrapped in opcodes; non-trivial = length at a push "
               "threshold (1,2,74..78,254..257,519,520) or > 520",
               enum=enum_push, nontrivial=nt_roundtrip, classes=classes_roundtrip, exhaustive=True,
               enum_desc="all element lengths 0..522 x fill patterns",
               shards={"quick": 4, "thorough": 8}),
        Clause("scripts", check_roundtrip,
               "random scripts of up to 12 opcodes/elements, sizes biased to thresholds, plus scripts "
               "whose total passes 0xffff, plus look-alikes of the four standard output templates (same length, same "
               "first / last opcodes, other middle); byte-for-byte against the reference serialiser, then "
               "parse(serialize(s)) == s; non-trivial = contains a threshold-length element",
               gen=lambda tier: st.fixed_dictionaries({"cmds": st.one_of(
                   _script_cmds(), _script_cmds(), _script_cmds(), _big_script_cmds(), _near_standard_cmds())}),
               nontrivial=nt_roundtrip, classes=classes_roundtrip,
               n={"quick": 3000, "thorough": 150000}, shards={"quick": 4, "thorough": 16}),
        Clause("prefixes", check_prefixes,
               "every strict prefix of a valid serialisation (all cuts, incl. inside varint, push "
               "header, push data) must not be accepted; non-trivial = script with >= 1 data element",
               gen=lambda tier: st.fixed_dictionaries({"cmds": _script_cmds(6)}),
               nontrivial=lambda c: any(x[0] == "data" for x in c["cmds"]),
               n={"quick": 300, "thorough": 15000}, shards={"quick": 4, "thorough": 16}),
        Clause("edits", check_edits,
               "valid serialisation with 1-3 byte edits (set/inc/dec/delete/insert/cut): if parse "
               "returns, the strict reference parser must accept the same bytes with the same commands",
               gen=gen_edits, nontrivial=lambda c: True,
               n={"quick": 6000, "thorough": 300000}, shards={"quick": 4, "thorough": 16}),
        Clause("non-minimal", check_nonminimal,
               "byte strings built from a grammar of well-formed tokens - opcodes, bare pushes, PUSHDATA1 and PUSHDATA2 with "
               "every length they can carry incl. 0 and lengths a shorter form would hold - behind a correct length "
               "prefix, whole or cut short: the parser must return exactly the strict parser's commands (every declared "
               "byte accounted for) or refuse",
               gen=gen_nonminimal, nontrivial=lambda c: any(t[:1] in (b"\x4c", b"\x4d") for t in c["toks"]),
               n={"quick": 3000, "thorough": 150000}, shards={"quick": 8, "thorough": 16}),
        Clause("binary", check_binary,
               "arbitrary byte strings with hostile heads (varint markers, push headers); same oracle",
               gen=gen_binary, nontrivial=lambda c: len(c["buf"]) >= 2,
               n={"quick": 10000, "thorough": 500000}, shards={"quick": 4, "thorough": 16}),
        Clause("varint", check_varint,
               "boundary values and uniform values per band; shortest encoding, round-trip, refusal "
               ">= 2^64, every truncation of every encoding refused; non-trivial = within 1 of a band edge "
               "or refused", enum=enum_varint, gen=gen_varint, nontrivial=nt_varint,
               enum_desc="band edges 0,1,0xfc..0x100,0xffff..,2^32..,2^64-1 and refused 2^64..2^128",
               n={"quick": 4000, "thorough": 200000}, shards={"quick": 2, "thorough": 8}),
        Clause("fuzz-parse", check_fuzz,
               "raw byte strings: hypothesis st.binary in every tier, and coverage-guided atheris/libFuzzer campaigns "
               "(empty corpus and a corpus of six valid serialisations) with the strict-parser oracle inside the target",
               gen=lambda tier: st.fixed_dictionaries({"data": st.binary(max_size=80)}),
               nontrivial=lambda c: len(c["data"]) >= 2,
               n={"quick": 3000, "thorough": 100000}, shards={"quick": 2, "thorough": 8},
               fuzz={"runs": {"quick": 30000, "thorough": 1500000}, "campaigns": {"quick": 2, "thorough": 8},
                     "max_len": 700, "corpus": FUZZ_CORPUS}),
        __import__("vlib.cold", fromlist=["x"]).cold_clause(
            "C19", st.tuples(st.sampled_from(["script", "script", "varint"]),
                             st.lists(st.one_of(st.integers(0x4F, 0xFF), st.sampled_from([0, 0x51, 0x76, 0xA9, 0x87, 0x88, 0xAC, 0xAE]),
                                                st.sampled_from([1, 20, 32, 33, 75, 76, 255, 256, 520]).flatmap(lambda n_: st.binary(min_size=n_, max_size=n_))),
                                      min_size=1, max_size=6),
                             st.one_of(st.sampled_from([0, 0xFC, 0xFD, 0xFFFF, 0x10000, 2 ** 32 - 1, 2 ** 32, 2 ** 64 - 1]), st.integers(0, 2 ** 64 - 1))),
            _cold_build, "script serialisation and varint encoding"),
    ]
