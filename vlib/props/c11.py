"""C11 — Segwit addresses follow BIP173/BIP350 and detect up to four character errors."""
from hypothesis import strategies as st

from vlib.engine import Clause, Violation
from vlib.ref import bech as R
from vlib.util import call, expect_eq

PROPERTY_ID = "C11"
OPTIMIZED = ['reject', 'encode-decode']   # clauses run a second time under `python -O` (assert statements stripped)
RULE = ("(version, length) pairs enumerated exhaustively with generated programs and HRPs; rejection "
        "strings built with the reference encoder (valid checksum for an arbitrary constant) so that one "
        "rule is violated at a time; error patterns of weight <= 4 over the 71 symbol positions of the "
        "longest address enumerated completely through the linearity of the implementation's polymod")
ASSUMPTIONS = ["HRPs are lower-case ASCII 33..126 (the decoder is given the lower-case HRP, as BIP173's "
               "reference API expects)",
               "error-pattern completeness relies on bech32_polymod being affine over GF(2), which the "
               "'linearity' clause tests on generated inputs and the 'encode-decode' clause cross-checks "
               "against an independent GF(32) implementation"]
M = R.BECH32M_CONST
T = 1 ^ M
NPOS = 71  # 1 version symbol + 64 program symbols (40 bytes) + 6 checksum symbols
CS = R.CHARSET


def _impl():
    from btc_hd_wallet import bech32
    from btc_hd_wallet import helper
    return bech32, helper


def prog_bytes(n, a, b):
    return bytes(((a + i * b) & 0xFF) for i in range(n))


HRP_ALPHA = "".join(chr(c) for c in range(33, 127) if not ("A" <= chr(c) <= "Z"))


def hrps():
    return st.one_of(st.sampled_from(["bc", "tb", "bcrt"]), st.sampled_from(["bc", "tb"]),
                     st.text(alphabet=HRP_ALPHA, min_size=1, max_size=20))


# ---------------------------------------------------------------- clause A: encode/decode agreement
import json as _json
import os as _os
with open(_os.path.join(_os.path.dirname(_os.path.dirname(_os.path.abspath(__file__))), "ref", "letterfree_addrs.json")) as _f:
    LETTERFREE = _json.load(_f)   # legal addresses without a single letter (HRP, version and data characters all digits/punctuation)


def enum_pairs(tier):
    for e in LETTERFREE:
        prog = bytes.fromhex(e["prog"])
        yield {"hrp": e["hrp"], "ver": e["ver"], "n": len(prog), "prog_hex": e["prog"], "a": 0, "b": 1}
    reps = 3 if tier == "quick" else 8
    for ver in range(0, 18):
        for n in range(0, 43):
            for r in range(reps):
                hrp = ["bc", "tb", "bcrt", "1x1", "~", "test1", "b", "ltc"][r % 8]
                yield {"hrp": hrp, "ver": ver, "n": n, "a": (r * 83 + ver * 7 + n) & 0xFF,
                       "b": [0, 1, 37, 255, 3, 5, 7, 11][r % 8]}
    # the 90-character limit from both sides, for every legal program length: total = len(hrp) + 1 + 1 + ceil(8n/5) + 6
    for ver, lens in ((0, (20, 32)), (1, tuple(range(2, 41))), (16, (2, 20, 32, 40))):
        for n in lens:
            body = 1 + 1 + (8 * n + 4) // 5 + 6
            for total in (89, 90, 91, 92):
                if total - body >= 1:
                    yield {"hrp": ("bc" + "x" * 90)[: total - body], "ver": ver, "n": n, "a": n, "b": 7}


def gen_pairs(tier):
    # generated HRPs (incl. ones that push the total length across 90) and programs
    return st.fixed_dictionaries({
        "hrp": st.one_of(hrps(), st.text(alphabet=HRP_ALPHA, min_size=40, max_size=83)),
        "ver": st.integers(0, 17), "n": st.one_of(st.integers(0, 42), st.sampled_from([2, 20, 32, 40])),
        "a": st.integers(0, 255), "b": st.integers(0, 255)})


def check_pair(case, ctx):
    B, H = _impl()
    hrp, ver, n = case["hrp"], case["ver"], case["n"]
    prog = bytes.fromhex(case["prog_hex"]) if case.get("prog_hex") else prog_bytes(n, case["a"], case["b"])
    want = R.segwit_encode(hrp, ver, prog)
    st_, got = call(B.encode, hrp, ver, list(prog))
    st_b, got_b = call(B.encode, hrp=hrp, witver=ver, witprog=prog)      # bytes program, keyword form
    if (st_, got if st_ == "ok" else None) != (st_b, got_b if st_b == "ok" else None):
        raise Violation("C11/encode/argument-form", "encode(%r, %d, <%d bytes>) gives %r for a list program and %r for bytes"
                        % (hrp, ver, n, got, got_b))
    if want is None:
        ctx.count("illegal-or-too-long")
        if st_ == "ok" and got is not None:
            raise Violation("C11/encode/illegal-produced-address",
                            "encode(%r, %d, %d-byte program) = %r but the combination is illegal or longer than 90"
                            % (hrp, ver, n, got))
        return
    ctx.count("legal")
    if st_ == "exc" or got is None:
        raise Violation("C11/encode/legal-refused", "encode(%r, %d, %d bytes) gave %r, expected %s"
                        % (hrp, ver, n, got, want))
    expect_eq("C11/encode/string-differs", "encode(%r, v%d, %d bytes)" % (hrp, ver, n), got, want)
    raw = R.decode_raw(got)
    expect_eq("C11/encode/wrong-constant", "checksum constant of v%d address" % ver, raw[2], R.const_for(ver))
    st_, dec = call(B.decode, hrp, got)
    if st_ == "exc" or dec is None or dec[0] != ver or dec[1] is None or bytes(dec[1]) != prog:
        raise Violation("C11/decode/roundtrip", "decode(%r, %s) = %r, expected (%d, %s)"
                        % (hrp, got, dec, ver, prog.hex()))
    st_, dec = call(B.decode, hrp, got.upper())
    if st_ == "exc" or dec[0] != ver or bytes(dec[1] or b"") != prog:
        raise Violation("C11/decode/uppercase", "all-upper-case form of %s not decoded: %r" % (got, dec))
    # the caller owns what it was handed back: editing those values in place must not change later answers
    if isinstance(dec[1], list):
        del dec[1][:]
    low = getattr(B, "bech32_decode", None)
    if low is not None:
        st_, parts = call(low, got)
        if st_ == "ok" and isinstance(parts, tuple):
            for part in parts:
                if isinstance(part, list) and part:
                    part.pop(0)
                    part.reverse()
            ctx.count("edited-low-level-result")
    st_, dec2 = call(B.decode, hrp, got)
    if st_ == "exc" or dec2 is None or dec2[0] != ver or dec2[1] is None or bytes(dec2[1]) != prog:
        raise Violation("C11/decode/changed-after-caller-edited-earlier-result", "decode(%r, %s) = %r after the lists returned "
                        "by earlier calls for the same string were edited in place; expected (%d, %s)" % (hrp, got, dec2, ver, prog.hex()))
    st_, got2 = call(B.encode, hrp, ver, list(prog))
    if st_ == "exc" or got2 != want:
        raise Violation("C11/encode/changed-after-caller-edited-earlier-result", "encode(%r, %d, ...) = %r after the lists "
                        "returned by earlier calls were edited in place; expected %s" % (hrp, ver, got2, want))
    # helper wrappers on the standard programs
    if n in (20, 32) and hrp in ("bc", "tb") and ver <= 16:
        testnet = hrp == "tb"
        f = H.h160_to_p2wpkh_address if n == 20 else H.h256_to_p2wsh_address
        kw = {"h160": prog} if n == 20 else {"h256": prog}
        st_, a = call(f, testnet=testnet, witver=ver, **kw)
        if st_ == "exc" or a != want:
            raise Violation("C11/helper/address", "%s(v%d) = %r, expected %s" % (f.__name__, ver, a, want))
        if ver == 0:
            st_, a0 = call(f, testnet=testnet, **kw)
            if st_ == "exc" or a0 != want:
                raise Violation("C11/helper/address", "%s default = %r, expected %s" % (f.__name__, a0, want))
        st_, p = call(H.bech32_decode_address, want)
        if st_ == "exc" or p != prog:
            raise Violation("C11/helper/decode", "bech32_decode_address(%s) = %r" % (want, p))


def nt_pair(case):
    return R.legal(case["ver"], case["n"]) and case["b"] != 0 and case["n"] > 1


# ---------------------------------------------------------------- clause B: single-rule rejections
KINDS = ["valid", "upper", "mixed", "other-hrp", "wrong-const", "other-const", "nonzero-pad", "extra-zero",
         "extra-symbol", "ver-high", "len-1", "len-41", "len-0", "len-42", "v0-badlen", "too-long", "no-sep",
         "sep-first", "bad-char", "short-data", "empty-hrp", "drop-symbol", "nonascii", "space", "unicode-fold",
         "upper-hrp-only", "upper-data-only", "hrp-is-prefix", "expected-hrp-upper", "expected-hrp-capitalised"]
# characters outside ASCII whose lower()/upper()/casefold() is an ASCII letter of the charset or of an HRP
FOLDS = [("k", "\u212a"), ("K", "\u212a"), ("s", "\u017f"), ("S", "\u017f"), ("i", "\u0130"), ("I", "\u0131"),
         ("b", "\uff42"), ("B", "\uff22"), ("c", "\uff43"), ("q", "\uff51"), ("1", "\uff11"), ("1", "\u00b9")]
CONSTS = [0, 2, 3, M ^ 1, M ^ 2, M ^ (1 << 29), 1 ^ (1 << 29), 0x3FFFFFFF]


def build_reject(case):
    """-> (hrp given to decode, string, data symbols or None)."""
    kind = case["kind"]
    hrp, ver, n, a, b = case["hrp"], case["ver"], case["n"], case["a"], case["b"]
    if not R.legal(ver, n):
        ver, n = (0, 20) if ver == 0 else (ver % 17 or 1, 2 + n % 39)
    prog = prog_bytes(n, a, b)
    data = [ver] + R.to5(prog)
    const = R.const_for(ver)
    dhrp = hrp
    if kind == "wrong-const":
        const = 1 if const == M else M
    elif kind == "other-const":
        const = CONSTS[a % len(CONSTS)] if b % 3 else ((a << 22) ^ (b << 13) ^ n * 2654435761) & 0x3FFFFFFF
        if const in (1, M):
            const ^= 4
    elif kind == "nonzero-pad":
        padbits = (5 - (8 * n) % 5) % 5
        if padbits:
            data[-1] |= 1 << (a % padbits)
        else:
            data.append(1 + a % 31)
    elif kind == "extra-zero":
        data.append(0)
    elif kind == "extra-symbol":
        data.append(a % 32)
    elif kind == "drop-symbol":
        data = data[:-1]
    elif kind == "ver-high":
        data[0] = 17 + a % 15
        const = M
    elif kind in ("len-1", "len-41", "len-0", "len-42"):
        nn = int(kind.split("-")[1])
        data = [ver] + R.to5(prog_bytes(nn, a, b))
    elif kind == "v0-badlen":
        nn = [2, 19, 21, 31, 33, 40, 16, 28][a % 8]
        data = [0] + R.to5(prog_bytes(nn, a, b))
        const = 1
    elif kind == "too-long":
        base = len(hrp) + 1 + len(data) + 6
        hrp = hrp + "x" * max(0, 91 + a % 4 - base)
        dhrp = hrp
    elif kind == "empty-hrp":
        hrp = dhrp = ""
    s = R.encode_raw(hrp, data, const)
    if kind == "upper":
        s = s.upper()
    elif kind == "mixed":
        idx = [i for i, ch in enumerate(s) if ch.isalpha()]
        if idx:
            i = idx[a % len(idx)]
            s = s[:i] + s[i].upper() + s[i + 1:]
    elif kind == "other-hrp":
        dhrp = {"bc": "tb", "tb": "bc"}.get(hrp, hrp + "x") if b % 2 else hrp[:-1] or "q"
    elif kind == "no-sep":
        s = hrp + s[len(hrp) + 1:]
    elif kind == "sep-first":
        s = s[len(hrp):]
    elif kind == "bad-char":
        i = len(hrp) + 1 + a % (len(s) - len(hrp) - 1)
        s = s[:i] + "bio1B"[b % 5] + s[i + 1:]
    elif kind == "short-data":
        s = hrp + "1" + s[len(hrp) + 1:][: a % 7]
    elif kind == "nonascii":
        i = a % len(s)
        s = s[:i] + "éıK "[b % 4] + s[i + 1:]
    elif kind == "unicode-fold":
        if a % 2:
            s = s.upper()
        cands = [(i, rep) for i, ch in enumerate(s) for (c0, rep) in FOLDS if ch == c0]
        if cands:
            i, rep = cands[b % len(cands)]
            s = s[:i] + rep + s[i + 1:]
        else:
            s = s[:-1] + "\u212a"
    elif kind == "upper-hrp-only":
        s = s[:len(hrp)].upper() + s[len(hrp):]
    elif kind == "upper-data-only":
        s = s[:len(hrp) + 1] + s[len(hrp) + 1:].upper()
    elif kind == "hrp-is-prefix":
        # the string is valid under the longer HRP  hrp + "1" + x ; the caller expects just hrp
        real = hrp + "1" + ["x", "", "1", "q1b"][a % 4]
        s = R.encode_raw(real, data, const)
        dhrp = hrp
    elif kind == "space":
        s = [" " + s, s + " ", s + "\n", s[:3] + " " + s[3:]][a % 4]
    elif kind == "expected-hrp-upper":
        # the caller's expected prefix is a different string (other case) than the prefix the address carries
        dhrp = hrp.upper()
        if a % 2:
            s = s.upper()
    elif kind == "expected-hrp-capitalised":
        dhrp = hrp.capitalize()
        if a % 2:
            s = s.upper()
    return dhrp, s


def gen_reject(tier):
    return st.fixed_dictionaries({
        "kind": st.sampled_from(KINDS), "hrp": hrps(), "ver": st.integers(0, 16),
        "n": st.one_of(st.sampled_from([20, 32, 2, 40]), st.integers(2, 40)),
        "a": st.integers(0, 255), "b": st.integers(0, 255)})


def enum_reject(tier):
    for kind in KINDS:
        for hrp in ("bc", "tb"):
            for ver in (0, 1, 16):
                for n in (20, 32, 2, 40, 33):
                    for a in (0, 1, 2, 3):
                        yield {"kind": kind, "hrp": hrp, "ver": ver, "n": n, "a": a, "b": a + 1}


def check_reject(case, ctx):
    B, H = _impl()
    dhrp, s = build_reject(case)
    want = R.segwit_decode(dhrp, s)
    st_, got = call(B.decode, dhrp, s)
    if st_ == "exc":
        got = (None, None)
        ctx.count("decode-raised")
    norm = None if (got is None or got[0] is None) else (got[0], bytes(got[1]))
    if want is None:
        ctx.count("ref-rejects")
        if norm is not None:
            raise Violation("C11/decode/accepted-invalid[%s]" % case["kind"],
                            "decode(%r, %r) = (%d, %s) but BIP173/350 reject it (%s)"
                            % (dhrp, s, norm[0], norm[1].hex(), case["kind"]))
    else:
        ctx.count("ref-accepts[%s]" % case["kind"])
        if norm != want:
            raise Violation("C11/decode/rejected-valid[%s]" % case["kind"],
                            "decode(%r, %r) = %r, expected (%d, %s)" % (dhrp, s, got, want[0], want[1].hex()))
    # the address helper built on top of the decoder (no expected-prefix argument): it may refuse more, but it must never
    # hand out a program for a string BIP173/350 reject under the prefix the string itself carries
    if hasattr(H, "bech32_decode_address") and len(s) >= 2:
        st_h, prog_h = call(H.bech32_decode_address, s)
        if st_h == "ok" and prog_h is not None:
            # the helper has no expected-prefix argument: whatever prefix the string itself carries is the one to decode under
            low_ = s.lower() if (s.lower() == s or s.upper() == s) else s
            own = low_[:low_.rfind("1")] if "1" in low_ else low_[:2]
            ok_l = R.segwit_decode(own, s) if own else None
            if ok_l is None or bytes(prog_h) != ok_l[1]:
                raise Violation("C11/helper/accepted-invalid[%s]" % case["kind"], "bech32_decode_address(%r) = %s although BIP173/350 "
                                "reject the string (%s)" % (s, bytes(prog_h).hex(), case["kind"]))
        ctx.count("helper-route:" + ("returned" if st_h == "ok" and prog_h is not None else "refused"))
    # the checksum verifier on its own: only the two constants are recognised
    raw = R.decode_raw(s) if all(33 <= ord(c) <= 126 for c in s) else None
    if raw is not None:
        hrp_s, data, const = raw
        low = s.lower()
        syms = [CS.index(c) for c in low[low.rfind("1") + 1:]]
        if not hasattr(B, "bech32_verify_checksum"):
            ctx.count("bech32_verify_checksum-absent")
            return
        st_, spec = call(B.bech32_verify_checksum, hrp_s, syms)
        name = None if (st_ == "exc" or spec is None) else getattr(spec, "name", str(spec))
        wantname = {1: "BECH32", M: "BECH32M"}.get(const)
        if name != wantname:
            raise Violation("C11/verify/constant", "bech32_verify_checksum for constant %#x returned %r, expected %r"
                            % (const, name, wantname))


def nt_reject(case):
    dhrp, s = build_reject(case)
    if case["kind"] == "valid":
        return False
    if not all(33 <= ord(c) <= 126 for c in s):
        return True
    raw = R.decode_raw(s)
    return raw is not None and raw[2] in (1, M)  # passes the checksum, so the rule itself is reached


# ---------------------------------------------------------------- clause C: error detection
def syndrome_table(polymod):
    base = [0] * (NPOS + 4)
    p0 = polymod(base)
    S = []
    for q in range(NPOS):
        row = [0] * 32
        for v in range(1, 32):
            x = list(base)
            x[len(base) - 1 - q] = v
            row[v] = polymod(x) ^ p0
        S.append(row)
    return S


def enumerate_patterns(S):
    """Complete enumeration of error patterns of weight <= 4 over NPOS positions.

    Returns (stats, problems, cross4) where problems lists patterns of weight <= 4 with syndrome 0
    and of weight <= 3 with syndrome 1^M, and cross4 the weight-4 patterns with syndrome 1^M.
    """
    bm = bytearray(1 << 27)  # one bit per 30-bit syndrome value
    problems = []
    bm[0] |= 1  # the zero pattern
    n1 = n2 = 0
    for q in range(NPOS):
        for v in range(1, 32):
            s = S[q][v]
            if bm[s >> 3] & (1 << (s & 7)):
                problems.append(("weight<=2 collision -> undetected error", s, [(q, v)]))
            bm[s >> 3] |= 1 << (s & 7)
            n1 += 1
    for q1 in range(NPOS):
        r1 = S[q1]
        for q2 in range(q1 + 1, NPOS):
            r2 = S[q2][1:]
            for v1 in range(1, 32):
                a = r1[v1]
                for v2m, b in enumerate(r2):
                    s = a ^ b
                    i = s >> 3
                    m = 1 << (s & 7)
                    if bm[i] & m:
                        if len(problems) < 20:
                            problems.append(("weight<=4 pattern with syndrome 0 (collision)", s,
                                             [(q1, v1), (q2, v2m + 1)]))
                    else:
                        bm[i] = bm[i] | m
            n2 += 31 * 31
    # cross-constant, weight <= 3: (weight <= 1) xor (weight <= 2) == T
    for q in [None] + list(range(NPOS)):
        for v in ([0] if q is None else range(1, 32)):
            s = (0 if q is None else S[q][v]) ^ T
            if bm[s >> 3] & (1 << (s & 7)):
                problems.append(("weight<=3 pattern switches Bech32<->Bech32m", s, [(q, v)]))
    # cross-constant, weight 4: two disjoint weight-2 patterns whose syndromes differ by T
    hits = {}
    for q1 in range(NPOS):
        r1 = S[q1]
        for q2 in range(q1 + 1, NPOS):
            r2 = S[q2]
            for v1 in range(1, 32):
                a = r1[v1] ^ T
                for v2 in range(1, 32):
                    s = a ^ r2[v2]
                    if bm[s >> 3] & (1 << (s & 7)):
                        hits.setdefault(s ^ T, []).append(((q1, v1), (q2, v2)))
    cross4 = set()
    overlapping = 0
    for s, pats in hits.items():
        for pa in pats:
            for pb in hits.get(s ^ T, []):
                pos = {pa[0][0], pa[1][0], pb[0][0], pb[1][0]}
                if len(pos) < 4:
                    overlapping += 1
                    continue
                cross4.add(tuple(sorted(pa + pb)))
    stats = {"weight1": n1, "weight2": n2, "weight<=2_patterns": 1 + n1 + n2,
             "weight4_cross_constant_patterns": len(cross4), "overlapping_pairs_skipped": overlapping}
    return stats, problems, sorted(cross4)


def n_symbols(n):
    return 1 + (8 * n + 4) // 5 + 6


def apply_errors(addr, hrp, errors):
    """errors: list of (q, v): symbol at distance q from the end is xor-ed with v."""
    chars = list(addr)
    for q, v in errors:
        i = len(chars) - 1 - q
        chars[i] = CS[CS.index(chars[i]) ^ v]
    return "".join(chars)


def judge_corrupted(B, hrp, addr, ver, corrupted, weight, sigp, ctx, what):
    want = R.segwit_decode(hrp, corrupted)
    st_, got = call(B.decode, hrp, corrupted)
    norm = None if (st_ == "exc" or got is None or got[0] is None) else (got[0], bytes(got[1]))
    if norm != want:
        raise Violation(sigp + "/differs-from-reference", "decode(%r) = %r, reference %r (%s)"
                        % (corrupted, norm, want, what))
    if norm is None:
        ctx.count("rejected")
        return
    switched = (ver == 0) != (norm[0] == 0)
    if weight <= 3 or not switched:
        raise Violation(sigp + "/accepted-corrupted", "address %s with %d substituted characters decodes as "
                        "(%d, %s): %s (%s)" % (addr, weight, norm[0], norm[1].hex(), corrupted, what))
    ctx.count("accepted-by-v0<->v!=0-switch (allowed exception)")


def check_enumeration(case, ctx):
    B, H = _impl()
    Sref = syndrome_table(R.polymod)
    if hasattr(B, "bech32_polymod"):
        S = syndrome_table(B.bech32_polymod)
    else:
        # internal helper renamed/removed: the enumeration runs over the reference arithmetic (a property of the
        # code, not of the implementation); the end-to-end part below still goes through the library's encode/decode
        ctx.count("bech32_polymod-absent: enumeration over the reference arithmetic")
        S = Sref
    # the table is what the reference arithmetic predicts
    if S != Sref:
        raise Violation("C11/errors/syndrome-table", "single-symbol syndromes of bech32_polymod differ from GF(32) model")
    stats, problems, cross4 = enumerate_patterns(S)
    for k, v in stats.items():
        ctx.count("enum:" + k, v)
    if problems:
        kind, s, pat = problems[0]
        raise Violation("C11/errors/undetected-pattern", "%s: syndrome %#x, half-pattern %r (%d problems)"
                        % (kind, s, pat, len(problems)))
    ctx.count("__extra_evals__", stats["weight<=2_patterns"])
    ctx.count("__extra_nontrivial__", stats["weight2"])
    # end to end: every weight-4 cross-constant pattern on real addresses from the library's encoder
    applied = 0
    for pat in cross4:
        qmax = max(q for q, _ in pat)
        vtop = [v for q, v in pat if q == qmax][0]
        targets = []
        for n in (20, 32, 40):
            if n_symbols(n) > qmax:
                targets.append((n, 0 if n != 40 else 1))
                targets.append((n, 5))
        for n in range(2, 41):  # lengths whose version symbol is exactly the pattern's top position
            if n_symbols(n) - 1 == qmax:
                targets.append((n, vtop if vtop <= 16 else 1))
                if n in (20, 32):
                    targets.append((n, 0))
        for n, ver in targets:
            if not R.legal(ver, n):
                continue
            prog = prog_bytes(n, qmax * 3 + 1, 7)
            for hrp in ("bc", "tb"):
                addr = B.encode(hrp, ver, list(prog))
                if addr is None:
                    raise Violation("C11/encode/legal-refused", "encode(%r,%d,%d bytes) returned None" % (hrp, ver, n))
                bad = apply_errors(addr, hrp, pat)
                judge_corrupted(B, hrp, addr, ver, bad, 4, "C11/errors/cross4", ctx, "pattern %r" % (pat,))
                applied += 1
    ctx.count("enum:cross4_applied_end_to_end", applied)
    ctx.count("__extra_evals__", applied)


def gen_errors(tier):
    err = st.tuples(st.integers(0, 200), st.integers(1, 31))
    return st.fixed_dictionaries({
        "hrp": st.sampled_from(["bc", "tb", "bcrt"]), "ver": st.integers(0, 16),
        "n": st.one_of(st.sampled_from([20, 32]), st.integers(2, 40)),
        "a": st.integers(0, 255), "b": st.integers(0, 255),
        "errors": st.lists(err, min_size=1, max_size=4, unique_by=lambda e: e[0]),
        "hrp_edit": st.one_of(st.none(), st.tuples(st.integers(0, 10), st.sampled_from(HRP_ALPHA)))})


def check_errors(case, ctx):
    B, H = _impl()
    hrp, ver, n = case["hrp"], case["ver"], case["n"]
    if not R.legal(ver, n):
        n = 20
    prog = prog_bytes(n, case["a"], case["b"])
    addr = B.encode(hrp, ver, list(prog))
    if addr is None:
        raise Violation("C11/encode/legal-refused", "encode(%r,%d,%d bytes) returned None" % (hrp, ver, n))
    m = n_symbols(n)
    errs = {}
    for q, v in case["errors"]:
        errs[q % m] = v
    errors = sorted(errs.items())
    bad = apply_errors(addr, hrp, errors)
    weight = len(errors)
    if case["hrp_edit"] is not None and weight <= 3:
        pos, ch = case["hrp_edit"]
        pos %= len(hrp) + 1  # the separator is included
        if bad[pos] != ch:
            bad = bad[:pos] + ch + bad[pos + 1:]
            weight += 1
            ctx.count("with-hrp-or-separator-substitution")
    judge_corrupted(B, hrp, addr, ver, bad, weight, "C11/errors/sampled", ctx,
                    "errors %r" % (errors,))


def check_linearity(case, ctx):
    B, H = _impl()
    if not hasattr(B, "bech32_polymod"):
        ctx.count("bech32_polymod-absent")
        return
    x = list(case["x"])
    e = [0] * len(x)
    S = _cached_table(B)
    pred = 0
    for q, v in case["errors"]:
        q %= min(len(x), NPOS)
        i = len(x) - 1 - q
        pred ^= S[q][e[i]] ^ S[q][e[i] ^ v]
        e[i] ^= v
    y = [a ^ b for a, b in zip(x, e)]
    px, py = B.bech32_polymod(x), B.bech32_polymod(y)
    if px ^ py != pred:
        raise Violation("C11/errors/not-affine", "polymod(x^e)^polymod(x) = %#x, sum of single-symbol syndromes %#x"
                        % (px ^ py, pred))
    if px != R.polymod(x):
        raise Violation("C11/errors/polymod-differs", "bech32_polymod(%r) = %#x, GF(32) model %#x" % (x[:12], px, R.polymod(x)))


_TAB = {}


def _cached_table(B):
    if "S" not in _TAB:
        _TAB["S"] = syndrome_table(B.bech32_polymod)
    return _TAB["S"]


def gen_linearity(tier):
    return st.fixed_dictionaries({
        "x": st.lists(st.integers(0, 31), min_size=1, max_size=100),
        "errors": st.lists(st.tuples(st.integers(0, 70), st.integers(1, 31)), min_size=1, max_size=6)})


FUZZ_CHARS = CS + "1bioBC" + "QPZRY9X8" + " ~\u212a"
FUZZ_HRPS = ["bc", "tb", "bcrt", "1", "a1"]


def check_fuzz(case, ctx):
    """Byte-level oracle: structured single-rule rejection, or a raw string built from the bytes."""
    B, H = _impl()
    d = case["data"]
    if len(d) >= 7 and d[0] & 1:
        check_reject({"kind": KINDS[d[1] % len(KINDS)], "hrp": FUZZ_HRPS[d[2] % 3], "ver": d[3] % 17,
                      "n": 2 + d[4] % 39, "a": d[5], "b": d[6]}, ctx)
        return
    hrp = FUZZ_HRPS[(d[0] >> 1) % len(FUZZ_HRPS)] if d else "bc"
    body = "".join(FUZZ_CHARS[b % len(FUZZ_CHARS)] for b in d[1:])
    if len(d) >= 2 and d[1] & 0x80:
        # make the checksum valid for one of the constants so that the rule checks are reached
        syms = [b % 32 for b in d[2:]]
        const = [1, M, 0, M ^ 1][d[1] % 4]
        s = R.encode_raw(hrp, syms, const)
        if d[1] & 0x40:
            s = s.upper()
    else:
        s = hrp + "1" + body if (d and d[0] & 2) else body
    want = R.segwit_decode(hrp, s)
    st_, got = call(B.decode, hrp, s)
    norm = None if (st_ == "exc" or got is None or got[0] is None) else (got[0], bytes(got[1]))
    if norm != want:
        raise Violation("C11/fuzz/differs-from-reference", "decode(%r, %r) = %r, BIP173/350 say %r" % (hrp, s, norm, want))


FUZZ_CORPUS = [b"\x00bc1qw508d6qejxtdg4y5r3zarvary0c5xw7kv8f3t4", bytes([2, 0x80]) + bytes([0] + [5] * 32),
               bytes([2, 0x81]) + bytes([1] + [7] * 52), bytes([1, 3, 0, 0, 18, 1, 2]), bytes([1, 6, 1, 1, 30, 9, 9])]


# ---------------------------------------------------------------- first use from several threads
def _cold_build(it):
    kind, hrp, ver, n, a, b = it
    if not R.legal(ver, n):
        ver, n = (0, 20) if ver == 0 else (ver, 2 + n % 39)
    prog = prog_bytes(n, a, b)
    addr = R.segwit_encode(hrp, ver, prog)
    if kind == "encode":
        return (["bech32", "encode", [hrp, ver, list(prog)]], addr, "encode(%r, %d, %d bytes)" % (hrp, ver, n))
    if kind == "decode-upper":
        return (["bech32", "decode", [hrp, addr.upper()]], [ver, list(prog)], "decode(%r, %r)" % (hrp, addr.upper()))
    return (["bech32", "decode", [hrp, addr]], [ver, list(prog)], "decode(%r, %r)" % (hrp, addr))


def clauses():
    return [
        Clause("encode-decode", check_pair,
               "all (version, length) in 0..17 x 0..42 with 3 (quick) / 8 (thorough) programs and HRPs each, plus "
               "generated HRPs up to 83 characters (total length on both sides of 90); encode equals the GF(32) "
               "reference or is None exactly when illegal; decode inverts; helper wrappers agree; non-trivial = "
               "legal pair with a non-constant program",
               enum=enum_pairs, gen=gen_pairs, nontrivial=nt_pair, exhaustive=True,
               enum_desc="(version, length) in 0..17 x 0..42",
               classes=lambda c: ["legal" if R.legal(c["ver"], c["n"]) else "illegal", "v0" if c["ver"] == 0 else "v1+"],
               n={"quick": 3000, "thorough": 150000}),
        Clause("reject", check_reject,
               "strings that violate one rule at a time with an otherwise valid checksum (mixed case, other HRP, "
               "wrong/other constant, non-zero or over-long padding, version 17..31, program length 0/1/41/42, v0 "
               "length, > 90 characters, separator missing/first, bad character, short data, non-ASCII, whitespace); "
               "decode must agree with the reference decoder and verify_checksum must recognise only the two "
               "constants; non-trivial = checksum verifies for one of the two constants (the rule itself decides)",
               enum=enum_reject, gen=gen_reject, nontrivial=nt_reject, classes=lambda c: [c["kind"]],
               enum_desc="28 kinds x {bc,tb} x versions {0,1,16} x lengths {20,32,2,40,33} x 4 variants",
               n={"quick": 4000, "thorough": 300000}),
        Clause("error-enumeration", check_enumeration,
               "complete enumeration: all 1+2201+2388085 error patterns of weight <= 2 over 71 positions have "
               "pairwise distinct syndromes (=> no pattern of weight <= 4 is undetected), no pattern of weight <= 3 "
               "has syndrome 1^M, every weight-4 pattern with syndrome 1^M is listed and applied end to end to "
               "library-encoded addresses (accepted only when it switches v0 <-> v!=0); non-trivial = weight-2 patterns",
               enum=lambda tier: [{"positions": NPOS}], exhaustive=True,
               enum_desc="error patterns of weight <= 4 over 71 symbol positions via syndrome linearity",
               shards={"quick": 1, "thorough": 1}),
        Clause("errors-sampled", check_errors,
               "1..4 substituted data characters (plus optionally one HRP/separator character) in a library-encoded "
               "address of any legal (version, length): must be rejected, except a 4-character change that switches "
               "v0 <-> v!=0; differential against the reference decoder; non-trivial = weight >= 2",
               gen=gen_errors, nontrivial=lambda c: len(c["errors"]) >= 2,
               classes=lambda c: ["weight=%d" % len(c["errors"])],
               n={"quick": 4000, "thorough": 400000}),
        Clause("linearity", check_linearity,
               "polymod(x ^ e) ^ polymod(x) equals the xor of single-symbol syndromes for random x (1..100 symbols) "
               "and random error vectors; polymod equals the GF(32) model; non-trivial = >= 2 error symbols",
               gen=gen_linearity, nontrivial=lambda c: len(c["errors"]) >= 2,
               n={"quick": 3000, "thorough": 200000}),
        Clause("fuzz-decode", check_fuzz,
               "raw bytes decoded into a single-rule rejection case, a string with a valid checksum for a chosen "
               "constant, or an arbitrary string over charset + separator + foreign characters; differential against "
               "the GF(32) reference decoder; hypothesis st.binary and atheris/libFuzzer campaigns",
               gen=lambda tier: st.fixed_dictionaries({"data": st.binary(max_size=100)}),
               nontrivial=lambda c: len(c["data"]) >= 8,
               n={"quick": 3000, "thorough": 100000}, shards={"quick": 2, "thorough": 8},
               fuzz={"runs": {"quick": 20000, "thorough": 800000}, "campaigns": {"quick": 2, "thorough": 8},
                     "max_len": 120, "corpus": FUZZ_CORPUS}),
        __import__("vlib.cold", fromlist=["x"]).cold_clause(
            "C11", st.tuples(st.sampled_from(["encode", "decode", "decode-upper"]), st.sampled_from(["bc", "tb", "bcrt"]),
                             st.integers(0, 16), st.sampled_from([20, 32, 2, 40, 33]), st.integers(0, 255), st.integers(0, 255)),
            _cold_build, "segwit address encode / decode"),
    ]
