"""C09 — Key encodings (WIF, SEC) round-trip and out-of-range keys are rejected."""
from hypothesis import strategies as st

from vlib import strategies as S
from vlib.engine import Clause, Violation
from vlib.ref import b58, secp
from vlib.util import call, expect_eq

PROPERTY_ID = "C09"
OPTIMIZED = ['bad-scalar', 'lengths', 'bad-sec', 'valid']   # clauses run a second time under `python -O` (assert statements stripped)
RULE = ("scalars from the class mixture (plus scalars whose low byte is 0x01); every constructor; the four WIF "
        "flavours decoded with an independent Base58Check; SEC encodings against own secp256k1; rejection inputs "
        "constructed per class (bad scalars at every construction site, wrong lengths, off-curve encodings decided "
        "by own Legendre symbol)")
ASSUMPTIONS = ["hybrid (06/07 with the right parity) and 64-byte raw encodings of valid points are accepted by the "
               "ecdsa backend; they are valid points, the statement does not list them: counted, not judged",
               "WIF version bytes / suffix bytes other than the standard ones are not judged",
               "a PrvKeyNode key of 33 bytes 00||k is the node format and not a wrong length"]
N, P = S.N, S.P


def _impl():
    from btc_hd_wallet.keys import PrivateKey, PublicKey
    from btc_hd_wallet.bip32 import PrvKeyNode, PubKeyNode
    return PrivateKey, PublicKey, PrvKeyNode, PubKeyNode


def scalars():
    return st.one_of(S.scalars(), S.scalars(),
                     st.integers(1, N - 1).map(lambda r: ((r >> 8) << 8 | 1) if ((r >> 8) << 8 | 1) < N else 1),
                     st.integers(1, 255).map(lambda b: (1 << 255) + b))


def check_valid(case, ctx):
    Prv, Pub, PrvNode, PubNode = _impl()
    k = case["k"]
    k32 = k.to_bytes(32, "big")
    pt = secp.mul_g(k)
    sec_c, sec_u = secp.ser_c(pt), secp.ser_u(pt)
    keys = []
    for name, f in (("PrivateKey(int)", lambda: Prv(k)), ("PrivateKey(bytes)", lambda: Prv(k32)),
                    ("PrivateKey(sec_exp=bytes)", lambda: Prv(sec_exp=k32)), ("parse(key_bytes=)", lambda: Prv.parse(key_bytes=k32)),
                    ("from_int", lambda: Prv.from_int(k)), ("parse", lambda: Prv.parse(k32))):
        st_, pk = call(f)
        if st_ == "exc":
            raise Violation("C09/valid/constructor-raised", "%s for k=%#x raised %r" % (name, k, pk))
        expect_eq("C09/valid/secret-bytes", "bytes(%s)" % name, bytes(pk), k32)
        expect_eq("C09/valid/sec-compressed", "%s .K.sec() for k=%#x" % (name, k), pk.K.sec(), sec_c)
        expect_eq("C09/valid/sec-compressed", "%s .K.sec(compressed=True)" % name, pk.K.sec(compressed=True), sec_c)
        expect_eq("C09/valid/sec-uncompressed", "%s .K.sec(compressed=False) for k=%#x" % (name, k),
                  pk.K.sec(compressed=False), sec_u)
        keys.append(pk)
    pk = keys[0]
    # SEC parse round trip, both forms
    parsed = []
    for form, enc in (("compressed", sec_c), ("uncompressed", sec_u)):
        st_, q = call(Pub.parse, enc)
        if st_ == "exc":
            raise Violation("C09/valid/sec-parse-raised", "PublicKey.parse(%s %s) raised %r" % (form, enc.hex(), q))
        expect_eq("C09/valid/sec-reencode", "parse(%s).sec()" % form, q.sec(), sec_c)
        expect_eq("C09/valid/sec-reencode", "parse(%s).sec(False)" % form, q.sec(compressed=False), sec_u)
        if not (q == pk.K):
            raise Violation("C09/valid/sec-equality", "PublicKey.parse(%s) != PrivateKey.K" % form)
        parsed.append(q)
    if not (parsed[0] == parsed[1]):
        raise Violation("C09/valid/sec-equality", "keys parsed from the two SEC forms are not equal")
    # WIF, four flavours
    for compressed in (True, False):
        for testnet in (True, False):
            want_payload = (b"\xef" if testnet else b"\x80") + k32 + (b"\x01" if compressed else b"")
            st_, w = call(pk.wif, compressed=compressed, testnet=testnet)
            flav = "compressed=%s testnet=%s" % (compressed, testnet)
            if st_ == "exc":
                raise Violation("C09/valid/wif-raised", "wif(%s) raised %r" % (flav, w))
            got_payload = b58.decode_check(w)
            if got_payload != want_payload:
                raise Violation("C09/valid/wif-payload", "wif(%s) of k=%#x = %s decodes to %s, expected %s" % (
                    flav, k, w, got_payload and got_payload.hex(), want_payload.hex()))
            st_, back = call(Prv.from_wif, wif_str=w) if compressed else call(Prv.from_wif, w)
            if st_ == "exc":
                raise Violation("C09/valid/from_wif-raised", "from_wif(%s) [%s, k=%#x] raised %r" % (w, flav, k, back))
            expect_eq("C09/valid/from_wif-roundtrip", "from_wif(wif(%s)) for k=%#x" % (flav, k), bytes(back), k32)
            # a key imported from one flavour is written out in every other flavour on request
            for c2 in (True, False):
                for t2 in (True, False):
                    st_, w3 = call(back.wif, compressed=c2, testnet=t2)
                    want3 = (b"\xef" if t2 else b"\x80") + k32 + (b"\x01" if c2 else b"")
                    if st_ == "exc" or b58.decode_check(w3) != want3:
                        raise Violation("C09/valid/wif-payload[after-import]", "from_wif(<%s>).wif(compressed=%s, testnet=%s) = %r, "
                                        "expected payload %s" % (flav, c2, t2, w3, want3.hex()))
            # the same flavour asked for with 0 / 1 instead of False / True, keyword and positional
            for how, f in (("keyword 0/1", lambda: pk.wif(compressed=int(compressed), testnet=int(testnet))),
                           ("positional 0/1", lambda: pk.wif(int(compressed), int(testnet)))):
                st_, w2 = call(f)
                if st_ == "exc":
                    ctx.count("non-bool-flag-refused (not judged)")
                elif b58.decode_check(w2) != want_payload:
                    raise Violation("C09/valid/wif-payload[non-bool-flags]", "wif(%s) asked with %s = %s decodes to %s, expected %s"
                                    % (flav, how, w2, (b58.decode_check(w2) or b"").hex(), want_payload.hex()))
            st_, sc = call(pk.K.sec, int(compressed))
            if st_ == "ok" and sc != (sec_c if compressed else sec_u):
                raise Violation("C09/valid/sec-non-bool-flag", "K.sec(%d) returned the other form" % int(compressed))
            # a WIF produced by other software (reference encoder) is read the same way
            st_, back = call(Prv.from_wif, b58.encode_check(want_payload))
            if st_ == "exc" or bytes(back) != k32:
                raise Violation("C09/valid/from_wif-roundtrip", "from_wif(reference WIF %s) -> %r" % (flav, back))
    # the caller's buffer is wiped after construction (zeroize-after-use): the key object must not change
    for name, mk in (("bytearray", lambda: bytearray(k32)),):
        buf = mk()
        st_, sk = call(Prv, buf)
        if st_ == "ok":
            for j in range(len(buf)):
                buf[j] = 0
            st_, v = call(lambda: (bytes(sk), b58.decode_check(sk.wif()), sk.K.sec()))
            if st_ == "exc" or v != (k32, b"\x80" + k32 + b"\x01", sec_c):
                raise Violation("C09/valid/aliases-caller-buffer", "PrivateKey(%s) changed after the caller wiped its buffer: %r"
                                % (name, v))
        else:
            ctx.count("bytearray-secret-refused (not judged)")
    # after the valid key has been built: other encodings of the same integer, and the negated point
    for name, enc in (("00||k (33 bytes)", b"\x00" + k32), ("8 zero bytes || k", b"\x00" * 8 + k32),
                      ("k without leading zeros", k32.lstrip(b"\x00") if k32[0] == 0 else k32[:-1])):
        if len(enc) == 32:
            continue
        for site, f in (("PrivateKey(bytes)", lambda enc=enc: Prv(enc)), ("parse", lambda enc=enc: Prv.parse(enc))):
            st_, v = call(f)
            if st_ == "ok":
                raise Violation("C09/reject/wrong-length-after-valid-key", "%s accepted %s (%d bytes) after the valid key "
                                "for the same integer had been constructed" % (site, name, len(enc)))
    npt = secp.mul_g(N - k)
    for enc, want in ((secp.ser_c(npt), secp.ser_c(npt)), (sec_c, sec_c), (secp.ser_u(npt), secp.ser_c(npt))):
        st_, q = call(Pub.parse, enc)
        if st_ == "exc" or q.sec() != want:
            raise Violation("C09/valid/sec-parse-negated-point", "PublicKey.parse(%s) after parsing the key with the same x "
                            "gave %r, expected %s" % (enc.hex(), q if st_ == "exc" else q.sec().hex(), want.hex()))
    if case.get("default_wif", True):
        expect_eq("C09/valid/wif-default", "wif() default flavour", b58.decode_check(pk.wif()), b"\x80" + k32 + b"\x01")
    # node views
    for form, key in (("32", k32), ("33", b"\x00" + k32)):
        node = PrvNode(key=key, chain_code=b"\x00" * 32)
        st_, v = call(lambda: (bytes(node.private_key), node.public_key.sec()))
        if st_ == "exc" or v != (k32, sec_c):
            raise Violation("C09/valid/node-view", "PrvKeyNode(%s-byte key).private_key/public_key -> %r" % (form, v))
    node = PubNode(key=sec_c, chain_code=b"\x00" * 32)
    st_, v = call(lambda: node.public_key.sec(compressed=False))
    if st_ == "exc" or v != sec_u:
        raise Violation("C09/valid/node-view", "PubKeyNode(key=sec).public_key -> %r" % (v,))


def nt_valid(case):
    k = case["k"]
    return S.scalar_class(k) != "uniform" or (k & 0xFF) == 1


# ------------------------------------------------------------------------------------ rejection: scalars
def gen_bad_scalar(tier):
    return st.fixed_dictionaries({"v": st.one_of(
        st.sampled_from([0, N, N + 1, 2 ** 256 - 1, N + 2, 2 ** 256 - 2]), st.integers(N, 2 ** 256 - 1),
        st.integers(1, 2 ** 16).map(lambda d: N + d)),
        "big": st.sampled_from([2 ** 256, 2 ** 256 + 1, 2 ** 300, N + 2 ** 256])})


def check_bad_scalar(case, ctx):
    Prv, Pub, PrvNode, PubNode = _impl()
    v = case["v"]
    v32 = v.to_bytes(32, "big")
    sites = [
        ("PrivateKey(int)", lambda: Prv(v)), ("PrivateKey(bytes)", lambda: Prv(v32)),
        ("from_int", lambda: Prv.from_int(v)), ("parse", lambda: Prv.parse(v32)),
        ("PrivateKey(int>=2^256)", lambda: Prv(case["big"])), ("from_int(>=2^256)", lambda: Prv.from_int(case["big"])),
        ("PrvKeyNode(32).private_key", lambda: PrvNode(key=v32, chain_code=b"\x00" * 32).private_key),
        ("PrvKeyNode(33).private_key", lambda: PrvNode(key=b"\x00" + v32, chain_code=b"\x00" * 32).private_key),
        ("PrvKeyNode(32).public_key", lambda: PrvNode(key=v32, chain_code=b"\x00" * 32).public_key),
    ]
    for ver in (b"\x80", b"\xef"):
        for suffix in (b"\x01", b""):
            w = b58.encode_check(ver + v32 + suffix)
            sites.append(("from_wif(%s)" % w, (lambda w=w: Prv.from_wif(w))))
    for name, f in sites:
        st_, val = call(f)
        if st_ == "ok":
            raise Violation("C09/reject/bad-scalar-accepted[%s]" % name.split("(")[0],
                            "%s with scalar %#x returned a key object" % (name, v))


# ------------------------------------------------------------------------------------ rejection: lengths
def enum_lengths(tier):
    for n in range(0, 71):
        for fill in (0x00, 0x01, 0x02, 0x04, 0xFF):
            yield {"n": n, "fill": fill}


def check_lengths(case, ctx):
    Prv, Pub, PrvNode, PubNode = _impl()
    n, fill = case["n"], case["fill"]
    b = bytes([fill]) * n
    if n != 32:
        sites = [("PrivateKey(bytes)", lambda: Prv(b)), ("parse", lambda: Prv.parse(b))]
        if not (n == 33 and fill == 0):
            sites.append(("PrvKeyNode.private_key", lambda: PrvNode(key=b, chain_code=b"\x00" * 32).private_key))
        for ver in (b"\x80", b"\xef"):
            if n + 1 not in (33, 34):
                w = b58.encode_check(ver + b)
                sites.append(("from_wif(%d-byte payload)" % (n + 1), (lambda w=w: Prv.from_wif(w))))
        for name, f in sites:
            st_, val = call(f)
            if st_ == "ok":
                raise Violation("C09/reject/wrong-length-private[%s]" % name.split("(")[0],
                                "%s with %d bytes of %#04x returned a key" % (name, n, fill))
    if n not in (33, 65):
        if n == 64:
            ctx.count("raw-64-byte-not-judged")
        else:
            for name, f in (("PublicKey.parse", lambda: Pub.parse(b)),
                            ("PubKeyNode.public_key", lambda: PubNode(key=b, chain_code=b"\x00" * 32).public_key)):
                st_, val = call(f)
                if st_ == "ok":
                    raise Violation("C09/reject/wrong-length-sec[%s]" % name, "%s with %d bytes returned a key" % (name, n))


# ------------------------------------------------------------------------------------ rejection: SEC
def nonresidue_x(seed):
    x = seed % P
    while secp.legendre(x * x * x + 7) != P - 1:
        x = (x + 1) % P
    return x


def gen_bad_sec(tier):
    return st.fixed_dictionaries({
        "kind": st.sampled_from(["nonresidue", "x>=p", "prefix33", "offcurve65", "offcurve65-near", "hybrid-wrong-parity",
                                 "prefix65", "xy-swapped", "y>=p", "zero-point"]),
        "k": S.scalars(), "seed": st.integers(0, P - 1), "b": st.integers(0, 255)})


def build_bad_sec(case):
    kind, seed, b = case["kind"], case["seed"], case["b"]
    pt = secp.mul_g(case["k"])
    if kind == "nonresidue":
        return bytes([2 + b % 2]) + nonresidue_x(seed).to_bytes(32, "big")
    if kind == "x>=p":
        x = P + seed % (2 ** 256 - P)
        return bytes([2 + b % 2]) + x.to_bytes(32, "big")
    if kind == "prefix33":
        pre = [0, 1, 4, 5, 6, 7, 8, 0x80, 0xFF][b % 9]
        return bytes([pre]) + pt[0].to_bytes(32, "big")
    if kind == "offcurve65":
        y = (pt[1] + 1 + seed % (P - 2)) % P
        if y == P - pt[1]:
            y = (y + 1) % P
        return b"\x04" + pt[0].to_bytes(32, "big") + y.to_bytes(32, "big")
    if kind == "offcurve65-near":
        x, y = pt
        x2, y2 = [(x + 1, y), (x, (y + 1) % P), ((x - 1) % P, y), (x, (y - 1) % P)][b % 4]
        if secp.on_curve((x2 % P, y2)):
            x2 = (x2 + 2) % P
        return b"\x04" + (x2 % P).to_bytes(32, "big") + y2.to_bytes(32, "big")
    if kind == "hybrid-wrong-parity":
        pre = 7 if pt[1] % 2 == 0 else 6
        return bytes([pre]) + pt[0].to_bytes(32, "big") + pt[1].to_bytes(32, "big")
    if kind == "prefix65":
        pre = [0, 1, 2, 3, 5, 8, 0xFF][b % 7]
        return bytes([pre]) + pt[0].to_bytes(32, "big") + pt[1].to_bytes(32, "big")
    if kind == "xy-swapped":
        if secp.on_curve((pt[1], pt[0])):
            return b"\x04" + b"\x00" * 64
        return b"\x04" + pt[1].to_bytes(32, "big") + pt[0].to_bytes(32, "big")
    if kind == "y>=p":
        y = pt[1] + P
        if y >= 2 ** 256:
            return b"\x04" + pt[0].to_bytes(32, "big") + (2 ** 256 - 1).to_bytes(32, "big")
        return b"\x04" + pt[0].to_bytes(32, "big") + y.to_bytes(32, "big")
    if kind == "zero-point":
        return [b"\x04" + b"\x00" * 64, b"\x02" + b"\x00" * 32, b"\x03" + b"\x00" * 32, b"\x00" * 33][b % 4]
    raise ValueError(kind)


def check_bad_sec(case, ctx):
    Prv, Pub, PrvNode, PubNode = _impl()
    enc = build_bad_sec(case)
    if secp.parse_sec(enc) is not None:
        ctx.count("constructed-encoding-is-valid-skipped")
        return
    for name, f in (("PublicKey.parse", lambda: Pub.parse(enc)),
                    ("PubKeyNode.public_key", lambda: PubNode(key=enc, chain_code=b"\x00" * 32).public_key)):
        for attempt in (1, 2, 3):           # refused once must mean refused every time
            st_, val = call(f)
            if st_ == "ok":
                st2, s2 = call(val.sec)
                raise Violation("C09/reject/bad-sec-accepted[%s]%s" % (case["kind"], "" if attempt == 1 else "/on-retry"),
                                "%s(%s) [%s], attempt %d, returned a key that re-serialises as %r" % (name, enc.hex(), case["kind"], attempt, s2))


    # the same non-point handed over as a point OBJECT (the form the derivation code uses): no key may come out either
    if len(enc) == 65 and enc[0] == 4 and hasattr(Pub, "from_point"):
        x, y = int.from_bytes(enc[1:33], "big"), int.from_bytes(enc[33:], "big")
        if x < P and y < P and (x, y) != (0, 0):
            try:
                import ecdsa
                jac = ecdsa.ellipticcurve.PointJacobi(ecdsa.SECP256k1.curve, x, y, 1)
            except Exception:  # noqa: BLE001
                ctx.count("point-object-not-constructible (not judged)")
                return
            for attempt in (1, 2):
                st_, val = call(Pub.from_point, jac)
                if st_ == "ok":
                    st2, s2 = call(val.sec)
                    if st2 == "ok":
                        raise Violation("C09/reject/off-curve-point-object-accepted", "PublicKey.from_point(<Jacobian point object x=%#x y=%#x, "
                                        "not on the curve>) returned a key that serialises as %r" % (x, y, s2))
            ctx.count("off-curve-point-object-refused")


def gen_hybrid(tier):
    return st.fixed_dictionaries({"k": S.scalars()})


def check_lenient(case, ctx):
    """Valid-point encodings outside the statement's list: counted, never a violation; if accepted they must at
    least denote the same point."""
    Prv, Pub, PrvNode, PubNode = _impl()
    pt = secp.mul_g(case["k"])
    hy = bytes([6 + pt[1] % 2]) + pt[0].to_bytes(32, "big") + pt[1].to_bytes(32, "big")
    raw = hy[1:]
    for name, enc in (("hybrid", hy), ("raw64", raw)):
        st_, q = call(Pub.parse, enc)
        if st_ == "ok":
            ctx.count("lenient_accepted:" + name)
            if q.sec() != secp.ser_c(pt):
                raise Violation("C09/lenient/wrong-point", "%s encoding accepted as a different point" % name)
        else:
            ctx.count("lenient_rejected:" + name)


# ------------------------------------------------------------------------------------ valid points whose x is >= n
def check_highx(case, ctx):
    """x of a public key is bounded by the field prime p, not by the group order n (only secrets are)."""
    Prv, Pub, PrvNode, PubNode = _impl()
    pt = tuple(case["pt"])
    sc, su = secp.ser_c(pt), secp.ser_u(pt)
    for form, enc in (("compressed", sc), ("uncompressed", su)):
        for attempt in (1, 2):
            st_, q = call(Pub.parse, enc)
            if st_ == "exc":
                raise Violation("C09/valid/sec-parse-raised[x>=n]", "PublicKey.parse(%s SEC of a curve point with x >= n: %s) raised %r"
                                % (form, enc.hex(), q))
            if q.sec() != sc or q.sec(compressed=False) != su:
                raise Violation("C09/valid/sec-reencode[x>=n]", "PublicKey.parse(%s) of a point with x >= n re-encodes differently" % form)


# ------------------------------------------------------------------------------------ first use from several threads
def _cold_build(it):
    from vlib.cold import enc
    kind, k, compressed, testnet = it
    k32 = k.to_bytes(32, "big")
    pt = secp.mul_g(k)
    wif = b58.encode_check((b"\xef" if testnet else b"\x80") + k32 + (b"\x01" if compressed else b""))
    if kind == "wif":
        return (["keys", "PrivateKey", [{"hex": k32.hex()}], [["wif", [compressed, testnet]]]], wif, "PrivateKey(k).wif(%s, %s)" % (compressed, testnet))
    if kind == "from_wif":
        return (["keys", "PrivateKey.from_wif", [wif], [["__bytes__", []]]], enc(k32), "bytes(PrivateKey.from_wif(%s))" % wif)
    if kind == "sec":
        return (["keys", "PrivateKey", [{"hex": k32.hex()}], [["K", []], ["sec", [compressed]]]],
                enc(secp.ser_c(pt) if compressed else secp.ser_u(pt)), "PrivateKey(k).K.sec(%s)" % compressed)
    src = secp.ser_u(pt) if compressed else secp.ser_c(pt)
    return (["keys", "PublicKey.parse", [{"hex": src.hex()}], [["sec", [compressed]]]],
            enc(secp.ser_c(pt) if compressed else secp.ser_u(pt)), "PublicKey.parse(<other form>).sec(%s)" % compressed)


def clauses():
    return [
        Clause("valid", check_valid,
               "k in [1, n-1]: all four constructors, both SEC forms (own point multiplication), parse of both forms, "
               "four WIF flavours (payload through own Base58Check and from_wif, also for reference-encoded WIFs), node "
               "views; non-trivial = non-uniform scalar class or low byte 0x01",
               gen=lambda tier: st.fixed_dictionaries({"k": scalars()}), nontrivial=nt_valid,
               classes=lambda c: [S.scalar_class(c["k"]), "low-byte-01" if c["k"] & 0xFF == 1 else "low-byte-other"],
               n={"quick": 4000, "thorough": 60000}, shards={"quick": 16, "thorough": 16}),
        Clause("bad-scalar", check_bad_scalar,
               "0, n, n+1, 2^256-1, n+small, uniform in [n, 2^256), and ints >= 2^256 at every construction site incl. "
               "four reference-encoded WIF flavours and the node properties: must raise; all cases non-trivial",
               gen=gen_bad_scalar, n={"quick": 2000, "thorough": 40000}, shards={"quick": 8, "thorough": 16}),
        Clause("lengths", check_lengths,
               "byte strings of every length 0..70 (5 fills): private sites reject all but 32 (00||k of 33 bytes is the "
               "node format), SEC sites reject all but 33/65 (64-byte raw form counted, not judged)",
               enum=enum_lengths, exhaustive=True, enum_desc="lengths 0..70 x 5 fill bytes",
               shards={"quick": 4, "thorough": 4}),
        Clause("bad-sec", check_bad_sec,
               "33-byte encodings with x a non-residue (own Legendre symbol), x >= p, prefix not in {02,03}; 65-byte 04 "
               "encodings off the curve (random y, neighbours x+-1 / y+-1, swapped, y >= p), hybrid with wrong parity, "
               "wrong 65-byte prefix, all-zero encodings: PublicKey.parse and PubKeyNode.public_key must raise",
               gen=gen_bad_sec, classes=lambda c: [c["kind"]],
               n={"quick": 5000, "thorough": 80000}, shards={"quick": 8, "thorough": 16}),
        Clause("lenient", check_lenient,
               "hybrid/raw encodings of valid points: outcome counted only (must denote the same point when accepted)",
               gen=gen_hybrid, nontrivial=lambda c: True, n={"quick": 100, "thorough": 2000},
               shards={"quick": 2, "thorough": 4}),
        __import__("vlib.cold", fromlist=["x"]).cold_clause(
            "C09", st.tuples(st.sampled_from(["wif", "from_wif", "sec", "parse"]), S.scalars(), st.booleans(), st.booleans()),
            _cold_build, "WIF encode / decode, SEC encode / parse"),
        Clause("high-x-points", check_highx,
               "curve points with n <= x < p (constructed): both SEC forms parse, twice, and re-encode to the same bytes",
               enum=lambda tier: [{"pt": [p_[0], p_[1]]} for p_ in __import__("vlib.props.c07", fromlist=["x"]).high_x_points(8 if tier == "quick" else 32)],
               exhaustive=True, enum_desc="8 (quick) / 32 (thorough) points with n <= x < p", nontrivial=lambda c: True,
               shards={"quick": 4, "thorough": 8}),
    ]
