"""C01 — BIP32 private child derivation matches the spec for every parent and index."""
import gc

from hypothesis import strategies as st

from vlib import patch
from vlib import strategies as S
from vlib.engine import Clause, Violation
from vlib.ref import bip32 as R
from vlib.util import call, expect_eq

PROPERTY_ID = "C01"
OPTIMIZED = ['prf-corners', 'step', 'path']   # clauses run a second time under `python -O` (assert statements stripped)
RULE = ("parents (k, c, depth, index, parent fingerprint, network) from a mixture of scalar classes, built "
        "three ways (32-byte key, 00||k key, parsed from the reference xprv); child index from both sides of "
        "2^31; oracle = independent CKDpriv (own secp256k1, own Base58Check); PRF substituted from outside for "
        "the algebraic corners")
ASSUMPTIONS = ["parent depth 0..254 (a depth-255 parent has no serialisable child)",
               "depth-0 parents have zero fingerprint and child number (BIP32 master key)"]
N, H = S.N, S.H
ZERO4 = b"\x00" * 4


def _impl():
    from btc_hd_wallet.bip32 import PrvKeyNode
    return PrvKeyNode


def parents():
    def fix(d):
        if d["depth"] == 0:
            d["index"], d["pfp"] = 0, ZERO4
        return d
    return st.fixed_dictionaries({
        "k": S.scalars(), "c": S.chain_codes(),
        "depth": st.one_of(st.sampled_from([0, 1, 254]), st.integers(0, 254)),
        "index": S.indexes(), "pfp": S.fingerprints(), "testnet": st.booleans(),
    }).map(fix)


def ref_parent(p):
    return R.Node.from_priv(p["k"], p["c"], p["depth"], p["index"], p["pfp"])


def versions(testnet):
    return (R.TPRV, R.TPUB) if testnet else (R.XPRV, R.XPUB)


def impl_parents(p):
    Prv = _impl()
    kw = dict(chain_code=p["c"], index=p["index"], depth=p["depth"], testnet=p["testnet"],
              parent_fingerprint=p["pfp"])
    k32 = p["k"].to_bytes(32, "big")
    vprv, _ = versions(p["testnet"])
    return [
        ("key32", Prv(key=k32, **kw)),
        ("key33", Prv(key=b"\x00" + k32, **kw)),
        ("parsed", Prv.parse(ref_parent(p).xprv(vprv), testnet=p["testnet"])),
        # an application's own node class (the library propagates the class to the children)
        ("subclass", type("AppNode", (Prv,), {})(key=k32, **kw)),
    ]


def compare_node(sig, what, node, ref, testnet):
    """node: implementation PrvKeyNode; ref: reference Node."""
    vprv, vpub = versions(testnet)
    key = node.key
    if not isinstance(key, (bytes, bytearray)) or len(key) != 32:
        raise Violation(sig + "/key-not-32-bytes", "%s: child key is %r (%d bytes)" % (
            what, bytes(key).hex() if isinstance(key, (bytes, bytearray)) else key, len(key)))
    expect_eq(sig + "/child-key", what + " child key", int.from_bytes(key, "big"), ref.k)
    expect_eq(sig + "/chain-code", what + " chain code", bytes(node.chain_code), ref.c)
    expect_eq(sig + "/depth", what + " depth", node.depth, ref.depth)
    expect_eq(sig + "/child-number", what + " child number", node.index, ref.index)
    st_, pfp = call(lambda: node.parent_fingerprint)
    if st_ == "exc" or bytes(pfp) != ref.pfp:
        raise Violation(sig + "/parent-fingerprint", "%s parent fingerprint %r, expected %s" % (what, pfp, ref.pfp.hex()))
    st_, xprv = call(node.extended_private_key)
    if st_ == "exc" or xprv != ref.xprv(vprv):
        raise Violation(sig + "/xprv-string", "%s extended_private_key() = %r, expected %s" % (what, xprv, ref.xprv(vprv)))
    st_, xpub = call(node.extended_public_key)
    if st_ == "exc" or xpub != ref.xpub(vpub):
        raise Violation(sig + "/xpub-string", "%s extended_public_key() = %r, expected %s" % (what, xpub, ref.xpub(vpub)))
    # the same object asked for another SLIP-132 flavour and then for the default again
    v84 = R.VERSION_OF[("pub", testnet, 84)]
    st_, zp = call(node.extended_public_key, version=v84)
    if st_ == "exc" or zp != ref.xpub(v84):
        raise Violation(sig + "/xpub-string[other-version]", "%s extended_public_key(version=%#x) = %r, expected %s" % (what, v84, zp, ref.xpub(v84)))
    st_, xpub2 = call(node.extended_public_key)
    if st_ == "exc" or xpub2 != ref.xpub(vpub):
        raise Violation(sig + "/xpub-string[default-after-other-version]", "%s extended_public_key() after another version was asked "
                        "for = %r, expected %s" % (what, xpub2, ref.xpub(vpub)))
    v49 = R.VERSION_OF[("prv", testnet, 49)]
    st_, yp = call(node.extended_private_key, version=v49)
    st2, xprv2 = call(node.extended_private_key)
    if st_ == "exc" or yp != ref.xprv(v49) or st2 == "exc" or xprv2 != ref.xprv(vprv):
        raise Violation(sig + "/xprv-string[other-version]", "%s extended_private_key(version=%#x) = %r, then default = %r" % (what, v49, yp, xprv2))


def check_step(case, ctx):
    p, i = case["parent"], case["i"]
    rp = ref_parent(p)
    try:
        rc = R.ckd_priv(rp, i)
    except R.Invalid:
        ctx.count("invalid-child-skipped")
        return
    for n_form, (form, node) in enumerate(impl_parents(p)):
        what = "ckd(%d) from %s parent k=%#x depth=%d" % (i, form, p["k"], p["depth"])
        if n_form == 1:
            st_, child = call(node.ckd, index=i)                       # keyword form, as the wallet code calls it
        elif n_form == 2 and i < 2 ** 32 - 1:
            st_, kids = call(node.generate_children, interval=(i, i + 1))    # bulk form
            child = kids[0] if st_ == "ok" and len(kids) == 1 else kids
            if st_ == "ok" and not (isinstance(kids, list) and len(kids) == 1):
                raise Violation("C01/step/bulk-children", "generate_children((%d, %d)) returned %r" % (i, i + 1, kids))
        else:
            st_, child = call(node.ckd, i)
        if st_ == "exc":
            raise Violation("C01/step/raised", "%s raised %r" % (what, child))
        compare_node("C01/step", what, child, rc, p["testnet"])
    # a bulk request that straddles the hardened boundary: each child commits to the right parent encoding
    if case.get("straddle", i % 4 == 0):
        node = impl_parents(p)[i % 3][1]
        st_, kids = call(node.generate_children, (H - 2, H + 2))
        if st_ == "exc":
            raise Violation("C01/step/raised", "generate_children((2^31-2, 2^31+2)) raised %r" % (kids,))
        for j, kid in enumerate(kids):
            try:
                rk = R.ckd_priv(rp, H - 2 + j)
            except R.Invalid:
                continue
            compare_node("C01/bulk-straddling", "generate_children((2^31-2, 2^31+2))[%d]" % j, kid, rk, p["testnet"])
    # single children requested in another order first, then a bulk request over the same indexes on the same node
    if case.get("mixed", i % 4 == 1):
        for s0 in sorted({0, i % 3}):
            node = impl_parents(p)[0][1]
            for j in [1000 + t for t in range(s0)] + [s0, s0 + 9, s0 + 25, s0 + 3]:
                call(node.ckd, j)
            st_, kids = call(node.generate_children, (s0, s0 + 4))
            if st_ == "exc" or len(kids) != 4:
                raise Violation("C01/step/bulk-after-singles", "generate_children((%d, %d)) after single ckd calls gave %r" % (s0, s0 + 4, kids))
            for j, kid in enumerate(kids):
                try:
                    rk = R.ckd_priv(rp, s0 + j)
                except R.Invalid:
                    continue
                compare_node("C01/bulk-after-singles", "generate_children((%d, %d))[%d] after ckd(%d), ckd(%d), ckd(%d), ckd(%d) on the same node"
                             % (s0, s0 + 4, j, s0, s0 + 9, s0 + 25, s0 + 3), kid, rk, p["testnet"])
        ctx.count("bulk-after-single-children")
    # same scalar with another chain code, same chain code with another scalar, in the same process
    Prv = _impl()
    # public nodes whose 32 key bytes after the prefix EQUAL this parent's secret bytes (the secret read as an x coordinate,
    # both parities) are used in the same process; then the private parent derives again
    from vlib.ref import secp as _secp
    from btc_hd_wallet.bip32 import PubKeyNode as _Pub
    if p["k"] < _secp.P and _secp.lift_x(p["k"], False) is not None:
        for pref in (b"\x02", b"\x03"):
            pubtwin = _Pub(key=pref + p["k"].to_bytes(32, "big"), chain_code=p["c"], index=p["index"], depth=p["depth"],
                           testnet=p["testnet"], parent_fingerprint=p["pfp"])
            call(pubtwin.fingerprint)
            st_t, tx = call(lambda: pubtwin.ckd(i % H).extended_public_key())
            # the twin is an ordinary public parent: its own child is judged too (whichever of the look-alikes came first)
            tpt = _secp.lift_x(p["k"], pref == b"\x03")
            try:
                trc = R.ckd_pub(R.Node(None, tpt, p["c"], p["depth"], p["index"], p["pfp"]), i % H)
            except R.Invalid:
                trc = None
            if trc is not None and (st_t == "exc" or tx != trc.xpub(versions(p["testnet"])[1])):
                raise Violation("C01/sibling-public-x/public-twin", "public parent %s||k (k = this case's secret bytes read as x): child "
                                "%d serialises as %r, expected %s" % (pref.hex(), i % H, tx, trc.xpub(versions(p["testnet"])[1])))
        ctx.count("secret-bytes-also-used-as-public-x")
        rc0 = R.ckd_priv(ref_parent(p), i)
        node0 = Prv(key=p["k"].to_bytes(32, "big"), chain_code=p["c"], index=p["index"], depth=p["depth"],
                    testnet=p["testnet"], parent_fingerprint=p["pfp"])
        st_, child = call(node0.ckd, i)
        if st_ == "exc":
            raise Violation("C01/step/raised", "ckd after a public node with the same key bytes was used raised %r" % (child,))
        compare_node("C01/sibling-public-x", "ckd(%d) after public nodes 02||k and 03||k (k read as x) were used" % i, child, rc0, p["testnet"])
    for label, k2, c2 in (("other-chain-code", p["k"], bytes([p["c"][0] ^ 1]) + p["c"][1:]),
                          ("other-scalar", p["k"] % (N - 1) + 1, p["c"])):
        p2 = dict(p, k=k2, c=c2)
        try:
            rc2 = R.ckd_priv(ref_parent(p2), i)
        except R.Invalid:
            continue
        node = Prv(key=k2.to_bytes(32, "big"), chain_code=c2, index=p["index"], depth=p["depth"],
                   testnet=p["testnet"], parent_fingerprint=p["pfp"])
        st_, child = call(node.ckd, i)
        if st_ == "exc":
            raise Violation("C01/step/raised", "sibling parent (%s) ckd raised %r" % (label, child))
        compare_node("C01/sibling", "ckd(%d) from sibling parent (%s)" % (i, label), child, rc2, p["testnet"])


def _il(p, i):
    rp = ref_parent(p)
    I = patch.real_prf(rp.c, R.ckd_priv_msg(rp, i))
    return int.from_bytes(I[:32], "big")


def nt_step(case):
    p, i = case["parent"], case["i"]
    return S.index_class(i) == "boundary" or S.scalar_class(p["k"]) != "uniform" or _il(p, i) + p["k"] >= N


def classes_step(case):
    p, i = case["parent"], case["i"]
    out = ["k:" + S.scalar_class(p["k"]), "i:" + S.index_class(i), "depth0" if p["depth"] == 0 else "depth>0"]
    if _il(p, i) + p["k"] >= N:
        out.append("wrap-mod-n")
    return out


# ------------------------------------------------------------------------------------- paths
def check_path(case, ctx):
    p = case["parent"]
    path = list(case["path"])[: 255 - p["depth"]]   # child depth must stay serialisable (<= 255)
    rp = ref_parent(p)
    refs = []
    node = rp
    try:
        for i in path:
            node = R.ckd_priv(node, i)
            refs.append(node)
    except R.Invalid:
        ctx.count("invalid-child-skipped")
        return
    for form, root in impl_parents(p):
        cur = root
        for lvl, i in enumerate(path):
            st_, cur = call(cur.ckd, i)
            if st_ == "exc":
                raise Violation("C01/path/raised", "level %d ckd(%d) raised %r" % (lvl, i, cur))
            compare_node("C01/path", "%s parent, path %s level %d" % (form, R.fmt_path(path), lvl + 1),
                         cur, refs[lvl], p["testnet"])
        # nothing but the returned node is kept alive (root and intermediate nodes are dropped)
        if path:
            st_, lone = call(lambda: dict(impl_parents(p))[form].derive_path(list(path)))
            if st_ == "exc":
                raise Violation("C01/path/raised", "derive_path(%r) on a temporary root raised %r" % (path, lone))
            compare_node("C01/derive_path-temporary-root", "derive_path(%s) from a %s root that is not kept alive"
                         % (R.fmt_path(path), form), lone, refs[-1], p["testnet"])
        # a one-shot iterable instead of a list
        if path:
            st_, it_node = call(dict(impl_parents(p))[form].derive_path, iter(list(path)))
            if st_ == "exc":
                ctx.count("derive_path-refuses-iterators (not judged)")
            else:
                compare_node("C01/derive_path-iterator", "derive_path(iter(%s))" % R.fmt_path(path), it_node, refs[-1], p["testnet"])
        # the caller's list object is left alone and can be used again
        if path:
            shared = list(path)
            r1 = dict(impl_parents(p))[form]
            call(r1.derive_path, shared)
            if shared != list(path):
                raise Violation("C01/derive_path/argument-mutated", "derive_path changed the caller's index list %r -> %r"
                                % (list(path), shared))
            st_, again = call(dict(impl_parents(p))[form].derive_path, shared)
            if st_ == "exc":
                raise Violation("C01/path/raised", "second derive_path with the same list raised %r" % (again,))
            compare_node("C01/derive_path-list-reused", "derive_path(%s) with a list object used before" % R.fmt_path(path),
                         again, refs[-1], p["testnet"])
        # one list object whose elements are replaced in place between two calls on the SAME root (a loop over accounts)
        if len(path) >= 1:
            r2 = dict(impl_parents(p))[form]
            lst = list(path)
            lst[-1] = (lst[-1] + 1) % 2 ** 32 if lst[-1] != 2 ** 32 - 1 else 0
            call(r2.derive_path, lst)
            lst[-1] = path[-1]
            st_, again = call(r2.derive_path, lst)
            if st_ == "exc":
                raise Violation("C01/path/raised", "derive_path after an in-place edit of the caller's list raised %r" % (again,))
            compare_node("C01/derive_path-list-edited-in-place", "derive_path(%s) on a root that was first asked, with the same list "
                         "object, for another last index" % R.fmt_path(path), again, refs[-1], p["testnet"])
        # duplicates of a derived node (copy, deepcopy, pickle round trip) print what the original prints
        if path and form == "key32":
            import copy
            import pickle
            orig = dict(impl_parents(p))[form].derive_path(list(path))
            for how, dup in (("copy.copy", copy.copy), ("copy.deepcopy", copy.deepcopy),
                             ("pickle round trip", lambda x: pickle.loads(pickle.dumps(x)))):
                st_, d = call(dup, orig)
                if st_ == "exc":
                    ctx.count("node-not-copyable[%s] (not judged)" % how)
                    continue
                compare_node("C01/duplicate[%s]" % how.split(".")[-1].split(" ")[0], "%s of the node at %s" % (how, R.fmt_path(path)),
                             d, refs[-1], p["testnet"])
        # derive_path on a fresh root gives the same end node
        fresh = dict(impl_parents(p))[form]
        st_, end = call(fresh.derive_path, index_list=tuple(path)) if form == "key33" else call(fresh.derive_path, list(path))
        if st_ == "exc":
            raise Violation("C01/path/raised", "derive_path(%r) raised %r" % (path, end))
        if path:
            compare_node("C01/derive_path", "derive_path(%s) from %s parent" % (R.fmt_path(path), form),
                         end, refs[-1], p["testnet"])


# ------------------------------------------------------------------------------------- PRF corners
def gen_prf(tier):
    return st.fixed_dictionaries({
        "parent": parents(), "i": S.indexes(),
        "mode": st.sampled_from(["target", "target", "il", "invalid"]),
        "bad": st.sampled_from(["n", "n+1", "p-1", "max", "n-k", "n+2^64"]),
        "target": S.scalars(),                      # desired child key
        "il": st.one_of(st.sampled_from([0, 1, 2, N - 1, N - 2]), st.integers(0, N - 1)),
        "ir": S.chain_codes(),
    })


def prf_il(case):
    k = case["parent"]["k"]
    if case["mode"] == "target":
        il = (case["target"] - k) % N
    else:
        il = case["il"]
    if (il + k) % N == 0:   # invalid outputs belong to C18
        il = (il + 1) % N
    return il


def check_prf_invalid(case, ctx):
    """CKDpriv is *defined to fail* for IL >= n and for a zero child key: the other half of 'exactly what BIP32's
    CKDpriv defines'.  (Property C18 explores these faults in depth; here they are the corners of C01's own domain.)"""
    p, i = dict(case["parent"], c=S.case_salt(case)), case["i"]
    k = p["k"]
    il = {"n": N, "n+1": N + 1, "p-1": S.P - 1, "max": 2 ** 256 - 1, "n-k": N - k, "n+2^64": N + 2 ** 64}[case["bad"]]
    out = il.to_bytes(32, "big") + case["ir"]
    for form, node in impl_parents(p):
        stub = patch.ScriptedPRF({j: out for j in range(8)})
        with patch.prf(stub):
            st_, child = call(node.ckd, i)
        if not stub.calls:
            ctx.count("prf-substitution-not-effective: not judged")
            continue
        if st_ == "ok":
            raise Violation("C01/prf/invalid-child-returned[%s]" % ("IL>=n" if il >= N else "zero-key"),
                            "ckd(%d) from %s parent k=%#x with PRF output IL=%#x (%s) returned a node with key %s although "
                            "CKDpriv is defined to fail" % (i, form, k, il, case["bad"], bytes(getattr(child, "key", b"")).hex()))


def check_prf(case, ctx):
    if case.get("mode") == "invalid":
        return check_prf_invalid(case, ctx)
    p, i = dict(case["parent"], c=S.case_salt(case)), case["i"]
    il = prf_il(case)
    out = il.to_bytes(32, "big") + case["ir"]
    rp = ref_parent(p)
    rc = R.ckd_priv(rp, i, prf=lambda key, msg: out)
    want_msg = R.ckd_priv_msg(rp, i)
    for form, node in impl_parents(p):
        stub = patch.ScriptedPRF({j: out for j in range(8)})
        with patch.prf(stub):
            st_, child = call(node.ckd, i)
        what = "ckd(%d) from %s parent k=%#x with IL=%#x" % (i, form, p["k"], il)
        if st_ == "exc":
            raise Violation("C01/prf/raised", "%s raised %r although IL < n and child != 0" % (what, child))
        if len(stub.calls) == 0:
            ctx.count("prf-substitution-not-effective (implementation does not call bip32.hmac_sha512): not judged")
            continue
        for key, msg in stub.calls:
            if key != p["c"]:
                raise Violation("C01/prf/hmac-key", "%s: HMAC key %s is not the parent chain code" % (what, key.hex()))
            if msg != want_msg:
                raise Violation("C01/prf/hmac-data[%s]" % ("hardened" if i >= H else "normal"),
                                "%s: HMAC data %s, BIP32 requires %s" % (what, msg.hex(), want_msg.hex()))
        compare_node("C01/prf", what, child, rc, p["testnet"])


def classes_prf(case):
    if case.get("mode") == "invalid":
        return ["invalid:" + case["bad"]]
    il = prf_il(case)
    k = case["parent"]["k"]
    out = ["child:" + S.scalar_class((il + k) % N), "hardened" if case["i"] >= H else "normal"]
    if il + k >= N:
        out.append("wrap-mod-n")
    if il in (0, 1, N - 1):
        out.append("il-corner")
    return out


# ---------------------------------------------------------------------------- several threads, several parents
def check_threads(case, ctx):
    """2..3 threads derive privately at once, each from its own parent (or all from one shared parent), under the
    deterministic scheduler; every child is compared with the reference."""
    from vlib.sched import Scheduler
    import btc_hd_wallet.bip32 as m32
    import btc_hd_wallet.keys as mk
    import btc_hd_wallet.helper as mh
    Prv = _impl()
    ps = case["parents"]
    nodes = []
    for p in ps:
        nodes.append(Prv(key=p["k"].to_bytes(32, "big"), chain_code=p["c"], index=p["index"], depth=p["depth"],
                         testnet=p["testnet"], parent_fingerprint=p["pfp"]))
    shared = case["shared"]

    def runner(t, idxs):
        node = nodes[0] if shared else nodes[t % len(nodes)]

        def run():
            out = []
            for i in idxs:
                st_, ch = call(node.ckd, i)
                if st_ == "ok":
                    st2, xs = call(lambda: (ch.extended_private_key(), ch.extended_public_key()))
                    out.append((bytes(ch.key), bytes(ch.chain_code), ch.index, xs if st2 == "ok" else repr(xs)))
                else:
                    out.append(("EXC", repr(ch)))
            return out
        return run
    sched = Scheduler([tuple(x) for x in case["plan"]], [m32.__file__, mk.__file__, mh.__file__])
    results, errors = sched.run([runner(t, idxs) for t, idxs in enumerate(case["threads"])])
    ctx.count("switches", sched.switches)
    ctx.nontrivial = sched.switches >= 2
    for t, idxs in enumerate(case["threads"]):
        if t in errors:
            raise Violation("C01/threads/crashed", "thread %d raised %r" % (t, errors[t]))
        p = ps[0] if shared else ps[t % len(ps)]
        rp = ref_parent(p)
        vprv, vpub = versions(p["testnet"])
        for j, i in enumerate(idxs):
            try:
                want = R.ckd_priv(rp, i)
            except R.Invalid:
                continue
            exp = (want.k.to_bytes(32, "big"), want.c, i, (want.xprv(vprv), want.xpub(vpub)))
            got = results[t][j]
            if got != exp:
                raise Violation("C01/threads/child-differs", "with %d threads deriving privately at once (%s parents), child "
                                "%d of thread %d (parent k=%#x) is %r, expected %r" % (
                                    len(case["threads"]), "one shared" if shared else "distinct", i, t, p["k"], got, exp))


def gen_threads(tier):
    return st.fixed_dictionaries({
        "parents": st.lists(parents(), min_size=2, max_size=3), "shared": st.sampled_from([False, False, True]),
        "threads": st.lists(st.lists(S.indexes(), min_size=1, max_size=3), min_size=2, max_size=3),
        "plan": st.lists(st.tuples(st.integers(0, 2), st.integers(1, 10)), min_size=3, max_size=50)})


def clauses():
    return [
        Clause("step", check_step,
               "one derivation step from each of three constructions of the parent; compares key (as integer and "
               "32-byte length), chain code, depth, child number, parent fingerprint and both serialised strings; "
               "then sibling parents (same scalar / other chain code, other scalar / same chain code); "
               "non-trivial = boundary index, non-uniform scalar class, or IL + k wraps past n",
               gen=lambda tier: st.fixed_dictionaries({"parent": parents(), "i": S.indexes()}),
               nontrivial=nt_step, classes=classes_step,
               n={"quick": 2400, "thorough": 80000}, shards={"quick": 16, "thorough": 16}),
        Clause("path", check_path,
               "root + index list of length 0..8 compared at every intermediate node, and derive_path(list) on a "
               "fresh root; non-trivial = length >= 2 with a hardened and a normal index",
               gen=lambda tier: st.fixed_dictionaries({"parent": parents(), "path": st.lists(S.indexes(), max_size=8)}),
               nontrivial=lambda c: len(c["path"]) >= 2 and any(i >= H for i in c["path"]) and any(i < H for i in c["path"]),
               classes=lambda c: ["len=%d" % min(len(c["path"]), 4)],
               n={"quick": 240, "thorough": 10000}, shards={"quick": 16, "thorough": 16}),
        Clause("prf-corners", check_prf,
               "HMAC-SHA512 replaced for the case by a recording stub returning a chosen IL||IR: child key driven to "
               "1, n-1, tiny, leading-zero and uniform values, IL in {0,1,2,n-1,n-2}; only outputs BIP32 calls valid; "
               "checks HMAC key = parent chain code and data = 00||ser256(k)||ser32(i) (hardened) / "
               "serP(kG)||ser32(i) (normal); non-trivial = every case (distinct by parent, index, IL)",
               gen=gen_prf, classes=classes_prf,
               n={"quick": 2400, "thorough": 50000}, shards={"quick": 16, "thorough": 16}),
        Clause("threads", check_threads,
               "2..3 threads derive 1..3 children each (both sides of 2^31) from distinct parents (2 in 3 cases) or "
               "from one shared parent under the deterministic line-granularity scheduler (bip32.py, keys.py, helper.py "
               "traced); key, chain code, child number and both serialised strings of every child against the "
               "reference; non-trivial = >= 2 thread switches (measured)",
               gen=gen_threads, classes=lambda c: ["shared-parent" if c["shared"] else "distinct-parents"],
               n={"quick": 240, "thorough": 8000}, shards={"quick": 16, "thorough": 16}),
    ]
