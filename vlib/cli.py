"""Run the command-line entry point in process with argv / stdio / cwd substituted."""
import importlib
import traceback

from vlib import patch


def run_main(argv, cwd=None, tty=False):
    """-> dict(status, out, err, exc). SystemExit and uncaught exceptions are mapped to the exit status
    the interpreter would return."""
    mod = importlib.import_module("btc_hd_wallet.__main__")
    exc = None
    status = 0
    with patch.cli(argv, cwd, tty) as io:
        try:
            mod.main()
        except SystemExit as e:
            code = e.code
            if code is None:
                status = 0
            elif isinstance(code, int):
                status = code
            else:
                status = 1
        except BaseException as e:  # noqa: BLE001  (uncaught exception -> traceback on stderr, status 1)
            if isinstance(e, (KeyboardInterrupt, MemoryError)):
                raise
            exc = e
            status = 1
            io["err"].write("".join(traceback.format_exception_only(type(e), e)))
        out, err = io["out"].getvalue(), io["err"].getvalue()
    return {"status": status, "out": out, "err": err, "exc": exc}
