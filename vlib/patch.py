"""Per-case substitution points (installed from outside the repository, restored in finally)."""
import contextlib
import hashlib
import hmac as _hmac
import importlib
import io
import os
import sys


def real_prf(key, msg):
    return _hmac.new(key, msg, hashlib.sha512).digest()


@contextlib.contextmanager
def prf(fn, modules=("btc_hd_wallet.bip32",)):
    """Replace the module-level name hmac_sha512 in the given modules by fn(key=, msg=)."""
    # a module that no longer has the name simply is not substituted (the caller sees that its stub was never
    # consulted and does not judge the case)
    mods = [m for m in (importlib.import_module(n) for n in modules) if hasattr(m, "hmac_sha512")]
    olds = [m.hmac_sha512 for m in mods]

    def wrapper(key, msg):
        return fn(key, msg)

    for m in mods:
        m.hmac_sha512 = wrapper
    try:
        yield
    finally:
        for m, o in zip(mods, olds):
            m.hmac_sha512 = o


class ScriptedPRF:
    """Records calls; call number j (0-based) returns outputs[j] if present, else the real HMAC."""

    def __init__(self, outputs=None):
        self.outputs = dict(outputs or {})
        self.calls = []

    def __call__(self, key, msg):
        j = len(self.calls)
        self.calls.append((bytes(key), bytes(msg)))
        if j in self.outputs:
            return self.outputs[j]
        return real_prf(key, msg)


_PROBE = {"installed": False, "rec": None, "fail": None, "script": None}


def install_os_random_probes():
    """Replace the process's doors to the OS CSPRNG by pass-through probes: os.urandom, os.getrandom,
    random._urandom (what random.SystemRandom and `secrets` call) and ssl.RAND_bytes.

    Must run BEFORE btc_hd_wallet is imported, so that an implementation that binds the function at import time
    (`from os import urandom`) binds the probe.  The probes only count while a recorder is active."""
    if _PROBE["installed"]:
        return
    import random
    real_urandom = os.urandom

    def urandom(n):
        rec = _PROBE["rec"]
        if rec is not None:
            rec["bytes"] += n
            rec["calls"] += 1
        if _PROBE["fail"] is not None:
            raise _PROBE["fail"]
        if _PROBE["script"] is not None:
            return _PROBE["script"](n)
        return real_urandom(n)
    os.urandom = urandom
    random._urandom = urandom
    if hasattr(os, "getrandom"):
        real_getrandom = os.getrandom

        def getrandom(size, flags=0):
            if _PROBE["fail"] is not None:
                raise _PROBE["fail"]
            out = _PROBE["script"](size) if _PROBE["script"] is not None else real_getrandom(size, flags)
            rec = _PROBE["rec"]
            if rec is not None:
                rec["bytes"] += len(out)
                rec["calls"] += 1
            return out
        os.getrandom = getrandom
    try:
        import ssl
        real_rand = ssl.RAND_bytes

        def rand_bytes(n):
            if _PROBE["fail"] is not None:
                raise _PROBE["fail"]
            rec = _PROBE["rec"]
            if rec is not None:
                rec["bytes"] += n
                rec["calls"] += 1
            if _PROBE["script"] is not None:
                return _PROBE["script"](n)
            return real_rand(n)
        ssl.RAND_bytes = rand_bytes
    except Exception:  # noqa: BLE001
        pass
    _PROBE["installed"] = True


@contextlib.contextmanager
def urandom_recorder():
    """Count the bytes requested from the OS random source while the block runs (pass-through)."""
    install_os_random_probes()
    rec = {"bytes": 0, "calls": 0}
    old = _PROBE["rec"]
    _PROBE["rec"] = rec
    try:
        yield rec
    finally:
        _PROBE["rec"] = old


@contextlib.contextmanager
def os_random_unavailable(exc):
    """While the block runs every door to the OS random source raises `exc` (fault injection)."""
    install_os_random_probes()
    old = _PROBE["fail"]
    _PROBE["fail"] = exc
    try:
        yield
    finally:
        _PROBE["fail"] = old


@contextlib.contextmanager
def os_random_scripted(seed, flip_bit=None):
    """While the block runs every door to the OS random source serves a fixed pseudo-random stream determined by `seed`
    (SHAKE-256), optionally with ONE bit of that stream inverted (absolute bit position, most significant bit of the first
    byte is position 0).  Yields a dict with the number of bytes served."""
    install_os_random_probes()
    stream = hashlib.shake_256(b"os-random-script|" + bytes(seed)).digest(4096)
    if flip_bit is not None:
        b = bytearray(stream)
        b[flip_bit // 8] ^= 0x80 >> (flip_bit % 8)
        stream = bytes(b)
    state = {"pos": 0}

    def script(n):
        out = stream[state["pos"]:state["pos"] + n]
        if len(out) < n:
            out += hashlib.shake_256(b"tail|%d" % state["pos"]).digest(n - len(out))
        state["pos"] += n
        return out
    old = _PROBE["script"]
    _PROBE["script"] = script
    try:
        yield state
    finally:
        _PROBE["script"] = old


class TtyStringIO(io.StringIO):
    """A text buffer that claims to be an interactive terminal (what a console / pty looks like to `isatty()`)."""

    def isatty(self):
        return True


@contextlib.contextmanager
def cli(argv, cwd=None, tty=False):
    """Run code with sys.argv / stdout / stderr / cwd substituted. Yields dict with 'out','err' buffers."""
    old = (sys.argv, sys.stdout, sys.stderr, os.getcwd())
    out, err = (TtyStringIO(), TtyStringIO()) if tty else (io.StringIO(), io.StringIO())
    sys.argv = ["btc_hd_wallet"] + list(argv)
    sys.stdout, sys.stderr = out, err
    if cwd:
        os.chdir(cwd)
    try:
        yield {"out": out, "err": err}
    finally:
        sys.argv, sys.stdout, sys.stderr = old[0], old[1], old[2]
        os.chdir(old[3])
