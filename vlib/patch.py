"""Per-case substitution points (installed from outside the repository, restored in finally)."""
import contextlib
import hashlib
import hmac as _hmac
import importlib
import io
import os
import sys


def real_prf(key, msg):
    return _hmac.new(key, msg, hashlib.sha512).digest()


@contextlib.contextmanager
def prf(fn, modules=("btc_hd_wallet.bip32",)):
    """Replace the module-level name hmac_sha512 in the given modules by fn(key=, msg=)."""
    mods = [importlib.import_module(m) for m in modules]
    olds = [m.hmac_sha512 for m in mods]

    def wrapper(key, msg):
        return fn(key, msg)

    for m in mods:
        m.hmac_sha512 = wrapper
    try:
        yield
    finally:
        for m, o in zip(mods, olds):
            m.hmac_sha512 = o


class ScriptedPRF:
    """Records calls; call number j (0-based) returns outputs[j] if present, else the real HMAC."""

    def __init__(self, outputs=None):
        self.outputs = dict(outputs or {})
        self.calls = []

    def __call__(self, key, msg):
        j = len(self.calls)
        self.calls.append((bytes(key), bytes(msg)))
        if j in self.outputs:
            return self.outputs[j]
        return real_prf(key, msg)


@contextlib.contextmanager
def urandom_recorder():
    """Wrap os.urandom and random._urandom (what random.SystemRandom calls); pass-through, recording."""
    import random
    rec = {"bytes": 0, "calls": 0}
    old_os = os.urandom
    old_r = random._urandom

    def wrapped(n):
        rec["bytes"] += n
        rec["calls"] += 1
        return old_os(n)

    os.urandom = wrapped
    random._urandom = wrapped
    try:
        yield rec
    finally:
        os.urandom = old_os
        random._urandom = old_r


@contextlib.contextmanager
def cli(argv, cwd=None):
    """Run code with sys.argv / stdout / stderr / cwd substituted. Yields dict with 'out','err' buffers."""
    old = (sys.argv, sys.stdout, sys.stderr, os.getcwd())
    out, err = io.StringIO(), io.StringIO()
    sys.argv = ["btc_hd_wallet"] + list(argv)
    sys.stdout, sys.stderr = out, err
    if cwd:
        os.chdir(cwd)
    try:
        yield {"out": out, "err": err}
    finally:
        sys.argv, sys.stdout, sys.stderr = old[0], old[1], old[2]
        os.chdir(old[3])
