"""Shared generators (construction, not rejection)."""
from hypothesis import strategies as st
from vlib.ref import secp

N = secp.N
P = secp.P
H = 2 ** 31


def scalars():
    """Secret scalars in [1, N-1] from a mixture of classes."""
    return st.one_of(
        st.integers(1, N - 1),
        st.integers(1, 2 ** 16),
        st.builds(lambda j, r: (r % (1 << (8 * (32 - j)))) or 1, st.integers(1, 31), st.integers(1, N - 1)),
        st.integers(1, 2 ** 16).map(lambda d: N - d),
        st.integers(0, 255).map(lambda e: 1 << e),
    )


def scalar_class(k):
    if k <= 2 ** 16:
        return "tiny"
    if N - k <= 2 ** 16:
        return "near-n"
    if k & (k - 1) == 0:
        return "pow2"
    if k < 1 << 248:
        return "leading-zero"
    return "uniform"


def chain_codes():
    return st.one_of(st.just(b"\x00" * 32), st.just(b"\xff" * 32), st.binary(min_size=32, max_size=32))


BOUNDARY_INDEXES = [0, 1, H - 1, H, H + 1, 2 ** 32 - 1]
# numbers the library itself uses as path components (purposes, coin types, BIP85 root and applications) and the
# byte boundaries of ser32: an index that coincides with one of them must be treated like any other index
MAGIC = [44, 49, 84, 2, 32, 39, 12, 24, 128169, 707764, 83696968, 255, 256, 65535, 65536, 2 ** 24 - 1, 2 ** 24]


def indexes():
    return st.one_of(st.sampled_from(BOUNDARY_INDEXES), st.integers(0, H - 1), st.integers(H, 2 ** 32 - 1),
                     st.sampled_from(MAGIC + [m + H for m in MAGIC]))


def normal_indexes():
    return st.one_of(st.sampled_from([0, 1, H - 1]), st.integers(0, H - 1), st.sampled_from(MAGIC))


def hardened_indexes():
    return st.one_of(st.sampled_from([H, H + 1, 2 ** 32 - 1]), st.integers(H, 2 ** 32 - 1), st.sampled_from([m + H for m in MAGIC]))


def index_class(i):
    if i in BOUNDARY_INDEXES:
        return "boundary"
    return "hardened" if i >= H else "normal"


def case_salt(case, n=32):
    """Bytes determined by the whole case. PRF-substituting clauses use it as chain code / seed suffix so that the
    scripted PRF stays a FUNCTION of its input within a process (two cases never ask for different outputs on the
    same (key, message)); a correct implementation that memoises HMAC-derived values must not be misjudged."""
    import hashlib
    from vlib.engine import canon
    return hashlib.sha512(canon(case).encode()).digest()[:n]


def fingerprints():
    return st.binary(min_size=4, max_size=4)


def seeds(min_size=16, max_size=64):
    return st.binary(min_size=min_size, max_size=max_size)


NFKD_ALPHABET = (
    "éüÅñẛ̣"      # precomposed latin, long s with dot above + dot below
    "ﬁ²Ａａ１㎏ΩÅ"  # fi ligature, superscript 2, fullwidth, kg square, ohm, angstrom
    "가한글"                          # hangul syllables
    "豈見⼀"                          # CJK compatibility ideographs / radical
    "　  "                          # ideographic space, nbsp, em space
    "̧̣́̈"                    # combining marks
    "ガぱｶﾞ"                    # kana with (semi)voiced marks, halfwidth
    "aeiouAZ z"
    "\ufa70\u1d43\U0001f130\u10fc\u03f9\u2c7c\ua7f8\U0001d7ce"   # decompositions added after Unicode 3.2
)


def unicode_text(max_size=24):
    return st.one_of(
        st.text(max_size=max_size),
        st.text(alphabet=NFKD_ALPHABET, max_size=max_size),
        st.text(alphabet=st.characters(blacklist_categories=("Cs",)), max_size=max_size),
    )
