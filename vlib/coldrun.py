"""Cold-start concurrency: the FIRST calls a fresh interpreter makes into the library happen on several threads at once.

Lazily built module state (tables filled on first use, memo dicts, singletons) is only ever in its half-built state
once per process, so an in-process harness that has already called the library can never see it.  This runner is
started as a subprocess per case:

    python -m vlib.coldrun   < {"repo": path, "threads": [[[module, function, [args...], then?], ...], ...], "plan": [[t, n], ...]}

args are JSON values; {"hex": "..."} stands for bytes.  `function` may be dotted (Class.method).  The optional `then` is a
list of [attribute, [args...]] steps applied to the result in turn (attribute fetched, called when callable).  Each call's outcome is printed as JSON:
["ok", value] (bytes as {"hex": ...}, tuples as lists, other objects via str()) or ["exc", repr].
The threads run under the deterministic scheduler (vlib/sched.py), so the schedule is part of the case.
"""
import importlib
import json
import os
import sys


def _dec(v):
    if isinstance(v, dict) and set(v) == {"hex"}:
        return bytes.fromhex(v["hex"])
    if isinstance(v, list):
        return [_dec(x) for x in v]
    return v


def _enc(v):
    if isinstance(v, (bytes, bytearray)):
        return {"hex": bytes(v).hex()}
    if isinstance(v, (list, tuple)):
        return [_enc(x) for x in v]
    if v is None or isinstance(v, (bool, int, str)):
        return v
    return {"str": str(v)}


def main():
    spec = json.load(sys.stdin)
    repo = spec["repo"]
    sys.path.insert(0, repo)
    here = os.path.dirname(os.path.dirname(os.path.abspath(__file__)))
    if here not in sys.path:
        sys.path.insert(1, here)
    import btc_hd_wallet
    if not os.path.abspath(btc_hd_wallet.__file__).startswith(os.path.abspath(repo)):
        print(json.dumps({"harness_error": "btc_hd_wallet imported from %s" % btc_hd_wallet.__file__}))
        return 2
    from vlib.sched import Scheduler
    base = os.path.dirname(btc_hd_wallet.__file__)
    files = [os.path.join(base, f) for f in os.listdir(base) if f.endswith(".py")]
    mods = {}
    for th in spec["threads"]:
        for call_ in th:
            m = call_[0]
            if m not in mods:
                mods[m] = importlib.import_module("btc_hd_wallet." + m)      # importing is not calling

    def runner(calls):
        def run():
            out = []
            for call_ in calls:
                m, f, a = call_[0], call_[1], call_[2]
                try:
                    obj = mods[m]
                    for part in f.split("."):
                        obj = getattr(obj, part)
                    val = obj(*_dec(a))
                    for name, args in (call_[3] if len(call_) > 3 else []):
                        val = getattr(val, name)
                        if callable(val):
                            val = val(*_dec(args))
                    out.append(["ok", _enc(val)])
                except Exception as e:  # noqa: BLE001
                    out.append(["exc", repr(e)[:300]])
            return out
        return run
    sched = Scheduler([tuple(x) for x in spec["plan"]], files)
    results, errors = sched.run([runner(c) for c in spec["threads"]])
    print(json.dumps({"results": {str(k): v for k, v in results.items()},
                      "errors": {str(k): repr(v)[:300] for k, v in errors.items()}, "switches": sched.switches}))
    return 0


def run_case(threads, plan, timeout=120):
    """Parent side. -> dict printed by the child (raises RuntimeError on a harness problem)."""
    import subprocess
    from vlib import engine
    spec = {"repo": engine.repo_dir(), "threads": threads, "plan": [list(x) for x in plan]}
    env = dict(os.environ, PYTHONHASHSEED="0", PYTHONDONTWRITEBYTECODE="1")
    env.pop("PYTHONPATH", None)
    flags = ["-O"] if not __debug__ else []
    r = subprocess.run([sys.executable] + flags + ["-m", "vlib.coldrun"], input=json.dumps(spec), capture_output=True, text=True,
                       cwd=os.path.dirname(os.path.dirname(os.path.abspath(__file__))), env=env, timeout=timeout)
    try:
        out = json.loads(r.stdout.strip().splitlines()[-1])
    except Exception:  # noqa: BLE001
        raise RuntimeError("cold-start runner failed: rc=%s stdout=%r stderr=%r" % (r.returncode, r.stdout[-400:], r.stderr[-800:]))
    if "harness_error" in out:
        raise RuntimeError(out["harness_error"])
    return out


if __name__ == "__main__":
    sys.exit(main())
