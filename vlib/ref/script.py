"""Minimal-push serialiser and a strict script parser (independent of the repository)."""


def encode_varint(i):
    if i < 0:
        raise ValueError
    if i <= 0xFC:
        return bytes([i])
    if i <= 0xFFFF:
        return b"\xfd" + i.to_bytes(2, "little")
    if i <= 0xFFFFFFFF:
        return b"\xfe" + i.to_bytes(4, "little")
    if i <= 0xFFFFFFFFFFFFFFFF:
        return b"\xff" + i.to_bytes(8, "little")
    raise ValueError("too large")


def raw_serialize(cmds):
    out = bytearray()
    for c in cmds:
        if isinstance(c, int):
            out.append(c)
            continue
        n = len(c)
        if 1 <= n <= 75:
            out.append(n)
        elif 76 <= n <= 255:
            out += bytes([0x4C, n])
        elif 256 <= n <= 520:
            out += b"\x4d" + n.to_bytes(2, "little")
        else:
            raise ValueError("element size")
        out += c
    return bytes(out)


def serialize(cmds):
    raw = raw_serialize(cmds)
    return encode_varint(len(raw)) + raw


class Short(Exception):
    pass


def _take(buf, pos, n):
    if pos + n > len(buf):
        raise Short()
    return buf[pos:pos + n], pos + n


def strict_parse(buf):
    """Parse varint-prefixed script from the front of buf.

    Returns (cmds, consumed) or raises Short (stream ended early) / ValueError (a push or
    header crosses the declared script length).
    """
    b, pos = _take(buf, 0, 1)
    first = b[0]
    if first == 0xFD:
        b, pos = _take(buf, pos, 2)
        length = int.from_bytes(b, "little")
    elif first == 0xFE:
        b, pos = _take(buf, pos, 4)
        length = int.from_bytes(b, "little")
    elif first == 0xFF:
        b, pos = _take(buf, pos, 8)
        length = int.from_bytes(b, "little")
    else:
        length = first
    start = pos
    end = start + length
    if end > len(buf):
        raise Short()
    cmds = []
    while pos < end:
        op = buf[pos]
        pos += 1
        if 1 <= op <= 75:
            n = op
        elif op == 76:
            if pos + 1 > end:
                raise ValueError("header crosses end")
            n = buf[pos]
            pos += 1
        elif op == 77:
            if pos + 2 > end:
                raise ValueError("header crosses end")
            n = int.from_bytes(buf[pos:pos + 2], "little")
            pos += 2
        else:
            cmds.append(op)
            continue
        if pos + n > end:
            raise ValueError("push crosses end")
        cmds.append(buf[pos:pos + n])
        pos += n
    return cmds, pos


def selftest():
    assert raw_serialize([0x76, 0xA9, b"\x11" * 20, 0x88, 0xAC]).hex() == "76a914" + "11" * 20 + "88ac"
    assert raw_serialize([b"a" * 75])[0] == 75
    assert raw_serialize([b"a" * 76])[:2] == b"\x4c\x4c"
    assert raw_serialize([b"a" * 255])[:2] == b"\x4c\xff"
    assert raw_serialize([b"a" * 256])[:3] == b"\x4d\x00\x01"
    assert raw_serialize([b"a" * 520])[:3] == b"\x4d\x08\x02"
    for bad in (b"a" * 521,):
        try:
            raw_serialize([bad])
            assert False
        except ValueError:
            pass
    s = serialize([0x51, b"x" * 300, 0xAE])
    assert strict_parse(s) == ([0x51, b"x" * 300, 0xAE], len(s))
    for cut in range(len(s)):
        try:
            strict_parse(s[:cut])
            assert False, cut
        except Short:
            pass
    for bad in (b"\x0b\x0a", b"\x02\x4c", b"\xfd\x00"):
        try:
            strict_parse(bad)
            assert False
        except (Short, ValueError):
            pass
    assert encode_varint(0xFC) == b"\xfc" and encode_varint(0xFD) == b"\xfd\xfd\x00"
    assert encode_varint(0x10000) == b"\xfe\x00\x00\x01\x00"
    assert encode_varint(2 ** 32) == b"\xff" + (2 ** 32).to_bytes(8, "little")
