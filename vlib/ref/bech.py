"""Independent Bech32 / Bech32m: the checksum as polynomial arithmetic over GF(32).

GF(32) = GF(2)[a] / (a^5 + a^3 + 1); field elements are ints 0..31 (bit i = coefficient of
a^i).  The BCH generator polynomial of BIP173 is
    g(x) = x^6 + {29}x^5 + {22}x^4 + {20}x^3 + {21}x^2 + {29}x + {18}
and the checksum state after absorbing symbols v_0..v_{m-1} is the remainder of
    x^m + v_0 x^{m-1} + ... + v_{m-1}        modulo g(x),
packed as six GF(32) coefficients.  None of the bit-trick constants of the BIP173 reference
code (which the repository vendors) appear here.
"""

CHARSET = "qpzry9x8gf2tvdw0s3jn54khce6mua7l"
_CIDX = {c: i for i, c in enumerate(CHARSET)}
BECH32_CONST = 1
BECH32M_CONST = 0x2BC830A3
_GEN = [29, 22, 20, 21, 29, 18]  # coefficients of x^5 .. x^0 of g(x) (monic, degree 6)


def gf_mul(a, b):
    """Multiplication in GF(32) with reduction polynomial a^5 + a^3 + 1 (0b101001)."""
    r = 0
    while b:
        if b & 1:
            r ^= a
        b >>= 1
        a <<= 1
        if a & 32:
            a ^= 0b101001
    return r


_MUL = [[gf_mul(a, b) for b in range(32)] for a in range(32)]


def poly_state(values, init=None):
    """Remainder (6 GF(32) coefficients, x^5 first) after absorbing `values`."""
    c = list(init) if init is not None else [0, 0, 0, 0, 0, 1]
    for v in values:
        top = c[0]
        c = [c[1], c[2], c[3], c[4], c[5], v]
        if top:
            row = _MUL[top]
            for i in range(6):
                c[i] ^= row[_GEN[i]]
    return c


def pack(c):
    r = 0
    for x in c:
        r = (r << 5) | x
    return r


def unpack(n):
    return [(n >> (5 * (5 - i))) & 31 for i in range(6)]


def polymod(values):
    return pack(poly_state(values))


def hrp_expand(hrp):
    return [ord(ch) >> 5 for ch in hrp] + [0] + [ord(ch) & 31 for ch in hrp]


def create_checksum(hrp, data, const):
    """Six symbols such that polymod(hrp_expand + data + checksum) == const (any const)."""
    st = poly_state(hrp_expand(hrp) + list(data) + [0] * 6)
    target = unpack(const)
    return [st[i] ^ target[i] for i in range(6)]


def encode_raw(hrp, data, const):
    """Bech32-style string with a checksum matching the arbitrary constant `const`."""
    comb = list(data) + create_checksum(hrp, data, const)
    return hrp + "1" + "".join(CHARSET[d] for d in comb)


def decode_raw(s):
    """-> (hrp, data_without_checksum, const) or None; enforces BIP173 string rules."""
    if any(ord(ch) < 33 or ord(ch) > 126 for ch in s):
        return None
    low, up = s.lower(), s.upper()
    if s != low and s != up:
        return None
    s = low
    if len(s) > 90:
        return None
    pos = s.rfind("1")
    if pos < 1 or pos + 7 > len(s):
        return None
    hrp, rest = s[:pos], s[pos + 1:]
    if any(ch not in _CIDX for ch in rest):
        return None
    data = [_CIDX[ch] for ch in rest]
    const = polymod(hrp_expand(hrp) + data)
    return hrp, data[:-6], const


def to5(prog):
    acc = 0
    bits = 0
    out = []
    for b in prog:
        acc = (acc << 8) | b
        bits += 8
        while bits >= 5:
            bits -= 5
            out.append((acc >> bits) & 31)
        acc &= (1 << bits) - 1
    if bits:
        out.append((acc << (5 - bits)) & 31)
    return out


def from5(syms):
    """5-bit symbols -> bytes, or None if padding is non-zero or longer than 4 bits."""
    acc = 0
    bits = 0
    out = bytearray()
    for s in syms:
        acc = (acc << 5) | s
        bits += 5
        while bits >= 8:
            bits -= 8
            out.append((acc >> bits) & 0xFF)
        acc &= (1 << bits) - 1
    if bits >= 5 or acc != 0:
        return None
    return bytes(out)


def legal(witver, proglen):
    """BIP141/173/350 legality of a (version, program length) pair."""
    if not 0 <= witver <= 16:
        return False
    if not 2 <= proglen <= 40:
        return False
    if witver == 0 and proglen not in (20, 32):
        return False
    return True


def const_for(witver):
    return BECH32_CONST if witver == 0 else BECH32M_CONST


def segwit_encode(hrp, witver, prog):
    """Address string, or None if the combination is illegal or too long."""
    if not legal(witver, len(prog)):
        return None
    s = encode_raw(hrp, [witver] + to5(prog), const_for(witver))
    if len(s) > 90:
        return None
    return s


def segwit_decode(hrp, addr):
    """-> (witver, program bytes) or None."""
    d = decode_raw(addr)
    if d is None:
        return None
    got_hrp, data, const = d
    if got_hrp != hrp:
        return None
    if not data:
        return None
    witver = data[0]
    prog = from5(data[1:])
    if prog is None or not legal(witver, len(prog)):
        return None
    if const != const_for(witver):
        return None
    return witver, prog


_VALID_BECH32 = ["A12UEL5L", "a12uel5l",
                 "an83characterlonghumanreadablepartthatcontainsthenumber1andtheexcludedcharactersbio1tt5tgs",
                 "abcdef1qpzry9x8gf2tvdw0s3jn54khce6mua7lmqqqxw",
                 "11qqqqqqqqqqqqqqqqqqqqqqqqqqqqqqqqqqqqqqqqqqqqqqqqqqqqqqqqqqqqqqqqqqqqqqqqqqqqqqqqqqc8247j",
                 "split1checkupstagehandshakeupstreamerranterredcaperred2y9e3w", "?1ezyfcl"]
_VALID_BECH32M = ["A1LQFN3A", "a1lqfn3a",
                  "an83characterlonghumanreadablepartthatcontainsthetheexcludedcharactersbioandnumber11sg7hg6",
                  "abcdef1l7aum6echk45nj3s0wdvt2fg8x9yrzpqzd3ryx",
                  "11llllllllllllllllllllllllllllllllllllllllllllllllllllllllllllllllllllllllllllllllllludsr8",
                  "split1checkupstagehandshakeupstreamerranterredcaperredlc445v", "?1v759aa"]
_VALID_ADDR = [
    ("BC1QW508D6QEJXTDG4Y5R3ZARVARY0C5XW7KV8F3T4", "0014751e76e8199196d454941c45d1b3a323f1433bd6"),
    ("tb1qrp33g0q5c5txsp9arysrx4k6zdkfs4nce4xj0gdcccefvpysxf3q0sl5k7",
     "00201863143c14c5166804bd19203356da136c985678cd4d27a1b8c6329604903262"),
    ("bc1pw508d6qejxtdg4y5r3zarvary0c5xw7kw508d6qejxtdg4y5r3zarvary0c5xw7kt5nd6y",
     "5128751e76e8199196d454941c45d1b3a323f1433bd6751e76e8199196d454941c45d1b3a323f1433bd6"),
    ("BC1SW50QGDZ25J", "6002751e"),
    ("bc1zw508d6qejxtdg4y5r3zarvaryvaxxpcs", "5210751e76e8199196d454941c45d1b3a323"),
    ("tb1qqqqqp399et2xygdj5xreqhjjvcmzhxw4aywxecjdzew6hylgvsesrxh6hy",
     "0020000000c4a5cad46221b2a187905e5266362b99d5e91c6ce24d165dab93e86433"),
    ("tb1pqqqqp399et2xygdj5xreqhjjvcmzhxw4aywxecjdzew6hylgvsesf3hn0c",
     "5120000000c4a5cad46221b2a187905e5266362b99d5e91c6ce24d165dab93e86433"),
    ("bc1p0xlxvlhemja6c4dqv22uapctqupfhlxm9h8z3k2e72q4k9hcz7vqzk5jj0",
     "512079be667ef9dcbbac55a06295ce870b07029bfcdb2dce28d959f2815b16f81798"),
]
_INVALID_ADDR = [
    "tc1p0xlxvlhemja6c4dqv22uapctqupfhlxm9h8z3k2e72q4k9hcz7vq5zuyut",
    "bc1p0xlxvlhemja6c4dqv22uapctqupfhlxm9h8z3k2e72q4k9hcz7vqh2y7hd",
    "tb1z0xlxvlhemja6c4dqv22uapctqupfhlxm9h8z3k2e72q4k9hcz7vqglt7rf",
    "BC1S0XLXVLHEMJA6C4DQV22UAPCTQUPFHLXM9H8Z3K2E72Q4K9HCZ7VQ54WELL",
    "bc1qw508d6qejxtdg4y5r3zarvary0c5xw7kemeawh",
    "tb1q0xlxvlhemja6c4dqv22uapctqupfhlxm9h8z3k2e72q4k9hcz7vq24jc47",
    "bc1p38j9r5y49hruaue7wxjce0updqjuyyx0kh56v8s25huc6995vvpql3jow4",
    "BC130XLXVLHEMJA6C4DQV22UAPCTQUPFHLXM9H8Z3K2E72Q4K9HCZ7VQ7ZWS8R",
    "bc1pw5dgrnzv",
    "bc1p0xlxvlhemja6c4dqv22uapctqupfhlxm9h8z3k2e72q4k9hcz7v8n0nx0muaewav253zgeav",
    "BC1QR508D6QEJXTDG4Y5R3ZARVARYV98GJ9P",
    "tb1p0xlxvlhemja6c4dqv22uapctqupfhlxm9h8z3k2e72q4k9hcz7vq47Zagq",
    "bc1p0xlxvlhemja6c4dqv22uapctqupfhlxm9h8z3k2e72q4k9hcz7v07qwwzcrf",
    "tb1p0xlxvlhemja6c4dqv22uapctqupfhlxm9h8z3k2e72q4k9hcz7vpggkg4j",
    "bc1gmk9yu",
]


def selftest():
    # field sanity: a^5 = a^3 + 1, multiplicative group of order 31
    assert gf_mul(16, 2) == 0b01001
    for a in range(1, 32):
        x = 1
        for _ in range(31):
            x = gf_mul(x, a)
        assert x == 1
    for s in _VALID_BECH32:
        d = decode_raw(s)
        assert d is not None and d[2] == BECH32_CONST, s
    for s in _VALID_BECH32M:
        d = decode_raw(s)
        assert d is not None and d[2] == BECH32M_CONST, s
    for addr, spk in _VALID_ADDR:
        hrp = addr[:2].lower()
        r = segwit_decode(hrp, addr)
        assert r is not None, addr
        witver, prog = r
        spk_b = bytes.fromhex(spk)
        assert spk_b[0] == (witver + 0x50 if witver else 0) and spk_b[2:] == prog
        assert segwit_encode(hrp, witver, prog) == addr.lower()
    for addr in _INVALID_ADDR:
        assert segwit_decode("bc", addr) is None and segwit_decode("tb", addr) is None, addr
    # arbitrary-constant checksums
    for const in (0, 1, BECH32M_CONST, 0x3FFFFFFF, 12345):
        s = encode_raw("bc", [3, 1, 4, 1, 5], const)
        assert decode_raw(s) == ("bc", [3, 1, 4, 1, 5], const)
    assert from5(to5(b"\x01\x02\x03")) == b"\x01\x02\x03"
