"""Independent BIP85 model on top of ref.bip32."""
import base64
import hmac as _hmac
import hashlib
from . import bip32, bip39, b58

H = bip32.H
ROOT = 83696968 + H


def default_prf(key, msg):
    return _hmac.new(key, msg, hashlib.sha512).digest()


def entropy(master, path, prf=default_prf, ckd_prf=bip32.default_prf):
    node = bip32.derive(master, path, ckd_prf)
    return prf(b"bip-entropy-from-k", node.k.to_bytes(32, "big"))


def path_mnemonic(words, index, lang=0):
    return [ROOT, 39 + H, lang + H, words + H, index + H]


def path_wif(index):
    return [ROOT, 2 + H, index + H]


def path_xprv(index):
    return [ROOT, 32 + H, index + H]


def path_hex(nbytes, index):
    return [ROOT, 128169 + H, nbytes + H, index + H]


def path_pwd(plen, index):
    return [ROOT, 707764 + H, plen + H, index + H]


def mnemonic(master, words, index, **kw):
    e = entropy(master, path_mnemonic(words, index), **kw)
    return bip39.encode(e[: words * 4 // 3])


def wif(master, index, **kw):
    e = entropy(master, path_wif(index), **kw)
    k = int.from_bytes(e[:32], "big")
    if not 0 < k < bip32.N:
        raise bip32.Invalid("wif secret")
    return b58.encode_check(b"\x80" + e[:32] + b"\x01")


def xprv(master, index, **kw):
    e = entropy(master, path_xprv(index), **kw)
    k = int.from_bytes(e[32:], "big")
    if not 0 < k < bip32.N:
        raise bip32.Invalid("xprv secret")
    return bip32.Node.from_priv(k, e[:32]).xprv()


def hex_(master, nbytes, index, **kw):
    return entropy(master, path_hex(nbytes, index), **kw)[:nbytes].hex()


def pwd(master, plen, index, **kw):
    e = entropy(master, path_pwd(plen, index), **kw)
    return base64.b64encode(e).decode("ascii")[:plen]


def selftest():
    p = bip32.parse_xkey("xprv9s21ZrQH143K2LBWUUQRFXhucrQqBpKdRRxNVq2zBqsx8HVqFk2uYo8kmbaLLHRdqt"
                         "QpUm98uKfu3vca1LqdGhUtyoFnCNkfmXRyPXLjbKb")
    m = p[1]
    assert entropy(m, [ROOT, H, H]).hex() == (
        "efecfbccffea313214232d29e71563d941229afb4338c21f9517c41aaa0d16f00b83d2a09ef747e7a64e8e2bd5"
        "a14869e693da66ce94ac2da570ab7ee48618f7")
    assert mnemonic(m, 12, 0) == ("girl mad pet galaxy egg matter matrix prison refuse sense "
                                  "ordinary nose")
    assert mnemonic(m, 18, 0) == ("near account window bike charge season chef number sketch tomorrow "
                                  "excuse sniff circle vital hockey outdoor supply token")
    assert wif(m, 0) == "Kzyv4uF39d4Jrw2W7UryTHwZr1zQVNk4dAFyqE6BuMrMh1Za7uhp"
    assert xprv(m, 0) == ("xprv9s21ZrQH143K2srSbCSg4m4kLvPMzcWydgmKEnMmoZUurYuBuYG46c6P71UGXMzmri"
                          "LzCCBvKQWBUv3vPB3m1SATMhp3uEjXHJ42jFg7myX")
    assert hex_(m, 64, 0) == ("492db4698cf3b73a5a24998aa3e9d7fa96275d85724a91e71aa2d645442f878555d078"
                              "fd1f1f67e368976f04137b1f7a0d19232136ca50c44614af72b5582a5c")
    assert pwd(m, 21, 0) == "dKLoepugzdVJvdL56ogNV"
