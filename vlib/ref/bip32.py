"""Independent BIP32 model (CKDpriv, CKDpub, master, 78-byte serialisation)."""
import hmac as _hmac
import hashlib
from . import secp, b58, hashes

H = 2 ** 31
N = secp.N

XPRV, XPUB = 0x0488ADE4, 0x0488B21E
TPRV, TPUB = 0x04358394, 0x043587CF
# SLIP-132 table: version -> (key type, testnet, purpose)
SLIP132 = {
    0x0488B21E: ("pub", False, 44), 0x0488ADE4: ("prv", False, 44),
    0x049D7CB2: ("pub", False, 49), 0x049D7878: ("prv", False, 49),
    0x04B24746: ("pub", False, 84), 0x04B2430C: ("prv", False, 84),
    0x043587CF: ("pub", True, 44), 0x04358394: ("prv", True, 44),
    0x044A5262: ("pub", True, 49), 0x044A4E28: ("prv", True, 49),
    0x045F1CF6: ("pub", True, 84), 0x045F18BC: ("prv", True, 84),
}
VERSION_OF = {v: k for k, v in SLIP132.items()}  # (type, testnet, purpose) -> version


def default_prf(key, msg):
    return _hmac.new(key, msg, hashlib.sha512).digest()


class Invalid(Exception):
    """BIP32 declares the derived key invalid."""


class Node:
    """k is None for public-only nodes. pt is the affine public point."""
    __slots__ = ("k", "pt", "c", "depth", "index", "pfp")

    def __init__(self, k, pt, c, depth=0, index=0, pfp=b"\x00\x00\x00\x00"):
        self.k, self.pt, self.c, self.depth, self.index, self.pfp = k, pt, c, depth, index, pfp

    @classmethod
    def from_priv(cls, k, c, depth=0, index=0, pfp=b"\x00\x00\x00\x00"):
        return cls(k, secp.mul_g(k), c, depth, index, pfp)

    def sec(self):
        return secp.ser_c(self.pt)

    def identifier(self):
        return hashes.hash160(self.sec())

    def fingerprint(self):
        return self.identifier()[:4]

    def neuter(self):
        return Node(None, self.pt, self.c, self.depth, self.index, self.pfp)

    def payload(self, version, private):
        body = (version.to_bytes(4, "big") + bytes([self.depth]) + self.pfp
                + self.index.to_bytes(4, "big") + self.c)
        if private:
            return body + b"\x00" + self.k.to_bytes(32, "big")
        return body + self.sec()

    def xprv(self, version=XPRV):
        return b58.encode_check(self.payload(version, True))

    def xpub(self, version=XPUB):
        return b58.encode_check(self.payload(version, False))


def master(seed, prf=default_prf):
    I = prf(b"Bitcoin seed", seed)
    il = int.from_bytes(I[:32], "big")
    if il == 0 or il >= N:
        raise Invalid("master")
    return Node.from_priv(il, I[32:])


def ckd_priv_msg(node, i):
    if i >= H:
        return b"\x00" + node.k.to_bytes(32, "big") + i.to_bytes(4, "big")
    return node.sec() + i.to_bytes(4, "big")


def ckd_priv(node, i, prf=default_prf):
    I = prf(node.c, ckd_priv_msg(node, i))
    il = int.from_bytes(I[:32], "big")
    if il >= N:
        raise Invalid("IL >= n")
    ki = (il + node.k) % N
    if ki == 0:
        raise Invalid("ki == 0")
    return Node.from_priv(ki, I[32:], node.depth + 1, i, node.fingerprint())


def ckd_pub(node, i, prf=default_prf):
    if i >= H:
        raise Invalid("hardened from public")
    I = prf(node.c, node.sec() + i.to_bytes(4, "big"))
    il = int.from_bytes(I[:32], "big")
    if il >= N:
        raise Invalid("IL >= n")
    pt = secp.add(secp.mul_g(il), node.pt)
    if pt is None:
        raise Invalid("infinity")
    return Node(None, pt, I[32:], node.depth + 1, i, node.fingerprint())


def derive(node, path, prf=default_prf):
    for i in path:
        node = ckd_priv(node, i, prf) if node.k is not None else ckd_pub(node, i, prf)
    return node


def parse_payload(raw):
    """78-byte payload -> (version, Node) or None (strict)."""
    if len(raw) != 78:
        return None
    version = int.from_bytes(raw[:4], "big")
    depth = raw[4]
    pfp = raw[5:9]
    index = int.from_bytes(raw[9:13], "big")
    c = raw[13:45]
    kd = raw[45:]
    if kd[0] == 0:
        k = int.from_bytes(kd[1:], "big")
        if not 0 < k < N:
            return None
        return version, Node.from_priv(k, c, depth, index, pfp)
    pt = secp.parse_sec(kd)
    if pt is None:
        return None
    return version, Node(None, pt, c, depth, index, pfp)


def parse_xkey(s):
    raw = b58.decode_check(s)
    if raw is None:
        return None
    return parse_payload(raw)


def fmt_path(path, mark="m"):
    return "/".join([mark] + [(str(i - H) + "'") if i >= H else str(i) for i in path])


def selftest():
    # BIP32 vector 1
    m = master(bytes.fromhex("000102030405060708090a0b0c0d0e0f"))
    assert m.xprv() == ("xprv9s21ZrQH143K3QTDL4LXw2F7HEK3wJUD2nW2nRk4stbPy6cq3jPPqjiChkVvvNKmPG"
                        "JxWUtg6LnF5kejMRNNU3TGtRBeJgk33yuGBxrMPHi")
    assert m.xpub() == ("xpub661MyMwAqRbcFtXgS5sYJABqqG9YLmC4Q1Rdap9gSE8NqtwybGhePY2gZ29ESFjqJo"
                        "Cu1Rupje8YtGqsefD265TMg7usUDFdp6W1EGMcet8")
    n = derive(m, [H, 1, H + 2, 2, 1000000000])
    assert n.xprv() == ("xprvA41z7zogVVwxVSgdKUHDy1SKmdb533PjDz7J6N6mV6uS3ze1ai8FHa8kmHScGpWmj4"
                        "WggLyQjgPie1rFSruoUihUZREPSL39UNdE3BBDu76")
    assert n.xpub() == ("xpub6H1LXWLaKsWFhvm6RVpEL9P4KfRZSW7abD2ttkWP3SSQvnyA8FSVqNTEcYFgJS2UaF"
                        "cxupHiYkro49S8yGasTvXEYBVPamhGW6cFJodrTHy")
    # public derivation of the non-hardened tail agrees
    a = derive(m, [H, 1, H + 2])
    assert derive(a.neuter(), [2, 1000000000]).xpub() == n.xpub()
    # vector 2
    m2 = master(bytes.fromhex(
        "fffcf9f6f3f0edeae7e4e1dedbd8d5d2cfccc9c6c3c0bdbab7b4b1aeaba8a5a29f9c999693908d8a8784817e7b"
        "7875726f6c696663605d5a5754514e4b484542"))
    n2 = derive(m2, [0, 2147483647 + H, 1, 2147483646 + H, 2])
    assert n2.xprv() == ("xprvA2nrNbFZABcdryreWet9Ea4LvTJcGsqrMzxHx98MMrotbir7yrKCEXw7nadnHM8Dq3"
                         "8EGfSh6dqA9QWTyefMLEcBYJUuekgW4BYPJcr9E7j")
    # vector 3 (leading zeros retained)
    m3 = master(bytes.fromhex(
        "4b381541583be4423346c643850da4b320e46a87ae3d2a4e6da11eba819cd4acba45d239319ac14f863b8d5ab5"
        "a0d0c64d2e8a1e7d1457df2e5a3c51c73235be"))
    assert derive(m3, [H]).xprv() == (
        "xprv9uPDJpEQgRQfDcW7BkF7eTya6RPxXeJCqCJGHuCJ4GiRVLzkTXBAJMu2qaMWPrS7AANYqdq6vcBcBUdJCVVFceU"
        "vJFjaPdGZ2y9WACViL4L")
    # vector 4
    m4 = master(bytes.fromhex("3ddd5602285899a946114506157c7997e5444528f3003f6134712147db19b678"))
    assert derive(m4, [H, H + 1]).xprv() == (
        "xprv9xJocDuwtYCMNAo3Zw76WENQeAS6WGXQ55RCy7tDJ8oALr4FWkuVoHJeHVAcAqiZLE7Je3vZJHxspZdFHfnBEjH"
        "qU5hG1Jaj32dVoS6XLT1")
    p = parse_xkey(m.xprv())
    assert p[0] == XPRV and p[1].k == m.k and p[1].c == m.c
    assert fmt_path([H + 44, H, 0, 5]) == "m/44'/0'/0/5"
