"""Independent reference models. selftest_all() validates each against published constants."""
from . import secp, b58, bech, hashes, bip32, bip39, bip85, script, classify  # noqa: F401


def selftest_all():
    for m in (secp, b58, bech, hashes, bip32, bip39, bip85, script, classify):
        m.selftest()
