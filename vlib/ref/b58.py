"""Independent Base58 / Base58Check (Horner form, explicit leading-zero rule)."""
import hashlib

ALPHABET = "123456789ABCDEFGHJKLMNPQRSTUVWXYZabcdefghijkmnopqrstuvwxyz"
_IDX = {c: i for i, c in enumerate(ALPHABET)}


def sha256d(b):
    return hashlib.sha256(hashlib.sha256(b).digest()).digest()


def encode(b: bytes) -> str:
    zeros = 0
    while zeros < len(b) and b[zeros] == 0:
        zeros += 1
    digits = []  # little-endian base-58 digits
    for byte in b[zeros:]:
        carry = byte
        for i in range(len(digits)):
            carry += digits[i] << 8
            digits[i] = carry % 58
            carry //= 58
        while carry:
            digits.append(carry % 58)
            carry //= 58
    return "1" * zeros + "".join(ALPHABET[d] for d in reversed(digits))


def decode(s: str) -> bytes:
    """Strict decode; raises ValueError on characters outside the alphabet."""
    ones = 0
    while ones < len(s) and s[ones] == "1":
        ones += 1
    out = []  # little-endian bytes
    for ch in s[ones:]:
        if ch not in _IDX:
            raise ValueError("bad char")
        carry = _IDX[ch]
        for i in range(len(out)):
            carry += out[i] * 58
            out[i] = carry & 0xFF
            carry >>= 8
        while carry:
            out.append(carry & 0xFF)
            carry >>= 8
    for ch in s[:ones]:
        if ch not in _IDX:
            raise ValueError("bad char")
    return b"\x00" * ones + bytes(reversed(out))


def encode_check(payload: bytes) -> str:
    return encode(payload + sha256d(payload)[:4])


def decode_check(s: str):
    """Return payload or None if s is not a valid Base58Check string."""
    try:
        raw = decode(s)
    except ValueError:
        return None
    if len(raw) < 4:
        return None
    payload, chk = raw[:-4], raw[-4:]
    if sha256d(payload)[:4] != chk:
        return None
    return payload


def selftest():
    # Bitcoin wiki example address
    h = bytes.fromhex("f54a5851e9372b87810a8e60cdd2e7cfd80b6e31")
    assert encode_check(b"\x00" + h) == "1PMycacnJaSqwwJqjawXBErnLsZ7RkXUAs"
    assert decode_check("1PMycacnJaSqwwJqjawXBErnLsZ7RkXUAs") == b"\x00" + h
    assert decode_check("1PMycacnJaSqwwJqjawXBErnLsZ7RkXUAt") is None
    assert encode(b"\x00\x00\x01") == "112"
    assert decode("112") == b"\x00\x00\x01"
    assert encode(b"") == "" and decode("") == b""
    assert encode(b"\x00") == "1" and decode("1") == b"\x00"
    for b in (b"\x00\x00", b"\xff" * 40, b"hello world", bytes(range(64))):
        assert decode(encode(b)) == b
        assert int.from_bytes(b, "big") == sum(
            _IDX[c] * 58 ** i for i, c in enumerate(reversed(encode(b)))
        )
