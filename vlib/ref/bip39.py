"""Independent BIP39 model with a frozen copy of the official English word list."""
import hashlib
import hmac as _hmac
import os
import unicodedata

_HERE = os.path.dirname(os.path.abspath(__file__))
SHA256_ENGLISH_TXT = "2f5eed53a4727b4bf8880d8f3f199efc90e58503646d9ff8eff3a2ed3b24dbda"
BITCOINJ_DIGEST = "ad90bf3beb7b0eb7e5acd74727dc0da96e0a280a258354e7293fb7e211ac03db"

with open(os.path.join(_HERE, "bip39_english.txt"), "rb") as _f:
    _RAW = _f.read()
WORDS = _RAW.decode("ascii").split("\n")[:-1]
INDEX = {w: i for i, w in enumerate(WORDS)}
SIZES = (16, 20, 24, 28, 32)


def encode(entropy: bytes) -> str:
    if len(entropy) not in SIZES:
        raise ValueError("size")
    ent = len(entropy) * 8
    cs = ent // 32
    digest = hashlib.sha256(entropy).digest()
    total = (int.from_bytes(entropy, "big") << cs) | (digest[0] >> (8 - cs))
    nwords = (ent + cs) // 11
    out = []
    for i in range(nwords):
        shift = 11 * (nwords - 1 - i)
        out.append(WORDS[(total >> shift) & 0x7FF])
    return " ".join(out)


def decode(sentence: str):
    """-> (entropy bytes, checksum_ok) or None if not words of the list / wrong count."""
    words = sentence.split(" ")
    if len(words) not in (12, 15, 18, 21, 24):
        return None
    total = 0
    for w in words:
        if w not in INDEX:
            return None
        total = (total << 11) | INDEX[w]
    bits = len(words) * 11
    cs = bits // 33
    ent = bits - cs
    entropy = (total >> cs).to_bytes(ent // 8, "big")
    chk = total & ((1 << cs) - 1)
    good = hashlib.sha256(entropy).digest()[0] >> (8 - cs)
    return entropy, chk == good


def pbkdf2_sha512(password: bytes, salt: bytes, rounds: int = 2048, dklen: int = 64) -> bytes:
    """Explicit PBKDF2 loop (single 64-byte block is enough for dklen <= 64)."""
    assert dklen <= 64
    base = _hmac.new(password, None, hashlib.sha512)
    h = base.copy()
    h.update(salt + (1).to_bytes(4, "big"))
    u = h.digest()
    acc = int.from_bytes(u, "big")
    for _ in range(rounds - 1):
        h = base.copy()
        h.update(u)
        u = h.digest()
        acc ^= int.from_bytes(u, "big")
    return acc.to_bytes(64, "big")[:dklen]


def seed(mnemonic: str, passphrase: str = "") -> bytes:
    m = unicodedata.normalize("NFKD", mnemonic).encode("utf-8")
    s = ("mnemonic" + unicodedata.normalize("NFKD", passphrase)).encode("utf-8")
    return pbkdf2_sha512(m, s)


def selftest():
    assert len(WORDS) == 2048
    assert hashlib.sha256(_RAW).hexdigest() == SHA256_ENGLISH_TXT
    assert hashlib.sha256("".join(WORDS).encode()).hexdigest() == BITCOINJ_DIGEST
    vecs = [
        ("00000000000000000000000000000000",
         "abandon abandon abandon abandon abandon abandon abandon abandon abandon abandon abandon about",
         "c55257c360c07c72029aebc1b53c05ed0362ada38ead3e3e9efa3708e53495531f09a6987599d18264c1e1c92f"
         "2cf141630c7a3c4ab7c81b2f001698e7463b04"),
        ("7f7f7f7f7f7f7f7f7f7f7f7f7f7f7f7f",
         "legal winner thank year wave sausage worth useful legal winner thank yellow",
         "2e8905819b8723fe2c1d161860e5ee1830318dbf49a83bd451cfb8440c28bd6fa457fe1296106559a3c80937a1"
         "c1069be3a3a5bd381ee6260e8d9739fce1f607"),
        ("f585c11aec520db57dd353c69554b21a89b20fb0650966fa0a9d6f74fd989d8f",
         "void come effort suffer camp survey warrior heavy shoot primary clutch crush open amazing "
         "screen patrol group space point ten exist slush involve unfold",
         "01f5bced59dec48e362f2c45b5de68b9fd6c92c6634f44d6d40aab69056506f0e35524a518034ddc1192e1dacd"
         "32c1ed3eaa3c3b131c88ed8e7e54c49a5d0998"),
    ]
    for e, m, s in vecs:
        assert encode(bytes.fromhex(e)) == m
        assert decode(m) == (bytes.fromhex(e), True)
        assert seed(m, "TREZOR").hex() == s
        assert hashlib.pbkdf2_hmac("sha512", m.encode(), b"mnemonicTREZOR", 2048) == seed(m, "TREZOR")
