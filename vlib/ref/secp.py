"""Independent secp256k1 arithmetic over Python ints (Jacobian coordinates).

Shares no code with the repository or with the `ecdsa` package.
"""

P = 0xFFFFFFFFFFFFFFFFFFFFFFFFFFFFFFFFFFFFFFFFFFFFFFFFFFFFFFFEFFFFFC2F
N = 0xFFFFFFFFFFFFFFFFFFFFFFFFFFFFFFFEBAAEDCE6AF48A03BBFD25E8CD0364141
GX = 0x79BE667EF9DCBBAC55A06295CE870B07029BFCDB2DCE28D959F2815B16F81798
GY = 0x483ADA7726A3C4655DA4FBFC0E1108A8FD17B448A68554199C47D08FFB10D4B8
G = (GX, GY)
INF = None  # affine point at infinity


def inv(a, m=P):
    return pow(a, -1, m)


def on_curve(pt):
    if pt is None:
        return True
    x, y = pt
    return 0 <= x < P and 0 <= y < P and (y * y - x * x * x - 7) % P == 0


# --- Jacobian helpers: (X, Y, Z) with x = X/Z^2, y = Y/Z^3; Z == 0 is infinity
def _to_jac(pt):
    if pt is None:
        return (1, 1, 0)
    return (pt[0], pt[1], 1)


def _from_jac(j):
    X, Y, Z = j
    if Z == 0:
        return None
    zi = inv(Z)
    zi2 = zi * zi % P
    return (X * zi2 % P, Y * zi2 * zi % P)


def _jdouble(j):
    X, Y, Z = j
    if Z == 0 or Y == 0:
        return (1, 1, 0)
    S = 4 * X * Y * Y % P
    M = 3 * X * X % P  # a = 0
    X3 = (M * M - 2 * S) % P
    Y3 = (M * (S - X3) - 8 * Y * Y * Y * Y) % P
    Z3 = 2 * Y * Z % P
    return (X3, Y3, Z3)


def _jadd(a, b):
    X1, Y1, Z1 = a
    X2, Y2, Z2 = b
    if Z1 == 0:
        return b
    if Z2 == 0:
        return a
    Z1Z1 = Z1 * Z1 % P
    Z2Z2 = Z2 * Z2 % P
    U1 = X1 * Z2Z2 % P
    U2 = X2 * Z1Z1 % P
    S1 = Y1 * Z2 * Z2Z2 % P
    S2 = Y2 * Z1 * Z1Z1 % P
    if U1 == U2:
        if S1 != S2:
            return (1, 1, 0)
        return _jdouble(a)
    H = (U2 - U1) % P
    R = (S2 - S1) % P
    HH = H * H % P
    HHH = H * HH % P
    V = U1 * HH % P
    X3 = (R * R - HHH - 2 * V) % P
    Y3 = (R * (V - X3) - S1 * HHH) % P
    Z3 = H * Z1 * Z2 % P
    return (X3, Y3, Z3)


def add(p1, p2):
    """Affine point addition (None is the point at infinity)."""
    return _from_jac(_jadd(_to_jac(p1), _to_jac(p2)))


def neg(pt):
    if pt is None:
        return None
    return (pt[0], (-pt[1]) % P)


def mul(k, pt=G):
    """Scalar multiplication k*pt, k any non-negative integer."""
    if pt is G or pt == G:
        return mul_g(k)
    k %= N
    acc = (1, 1, 0)
    base = _to_jac(pt)
    while k:
        if k & 1:
            acc = _jadd(acc, base)
        base = _jdouble(base)
        k >>= 1
    return _from_jac(acc)


# fixed-window table for G: _TAB[i][j] = (j * 16**i) * G in Jacobian (Z=1 affine)
_TAB = None


def _build_table():
    global _TAB
    tab = []
    base = _to_jac(G)
    for _ in range(64):
        row = [None]
        cur = base
        for j in range(1, 16):
            row.append(cur)
            cur = _jadd(cur, base)
        # normalise row to affine (Z = 1) to keep additions cheap
        row = [None] + [(lambda a: (a[0], a[1], 1))(_from_jac(x)) for x in row[1:]]
        tab.append(row)
        base = cur  # 16 * previous base
    _TAB = tab


def mul_g(k):
    k %= N
    if _TAB is None:
        _build_table()
    acc = (1, 1, 0)
    i = 0
    while k:
        d = k & 15
        if d:
            acc = _jadd(acc, _TAB[i][d])
        k >>= 4
        i += 1
    return _from_jac(acc)


def ser_c(pt):
    """Compressed SEC encoding (33 bytes)."""
    x, y = pt
    return bytes([2 + (y & 1)]) + x.to_bytes(32, "big")


def ser_u(pt):
    """Uncompressed SEC encoding (65 bytes)."""
    x, y = pt
    return b"\x04" + x.to_bytes(32, "big") + y.to_bytes(32, "big")


def legendre(a):
    """1 if a is a non-zero square mod P, P-1 (== -1) if not, 0 if a == 0."""
    return pow(a % P, (P - 1) // 2, P)


def lift_x(x, odd):
    """Point with given x and y parity, or None if x is not on the curve."""
    if not 0 <= x < P:
        return None
    rhs = (x * x * x + 7) % P
    y = pow(rhs, (P + 1) // 4, P)
    if y * y % P != rhs:
        return None
    if (y & 1) != (1 if odd else 0):
        y = P - y
    return (x, y)


def parse_sec(b):
    """Strict SEC parser: compressed 02/03 or uncompressed 04 only. None if invalid."""
    if len(b) == 33 and b[0] in (2, 3):
        return lift_x(int.from_bytes(b[1:], "big"), b[0] == 3)
    if len(b) == 65 and b[0] == 4:
        pt = (int.from_bytes(b[1:33], "big"), int.from_bytes(b[33:], "big"))
        return pt if on_curve(pt) else None
    return None


def selftest():
    assert on_curve(G)
    assert mul(2) == add(G, G)
    assert mul(2) == (
        0xC6047F9441ED7D6D3045406E95C07CD85C778E4B8CEF3CA7ABAC09B95C709EE5,
        0x1AE168FEA63DC339A3C58419466CEAEEF7F632653266D0E1236431A950CFE52A,
    )
    assert mul(N) is None
    assert mul(N - 1) == neg(G)
    assert add(G, neg(G)) is None
    # generic ladder agrees with window table
    k = 0xE8F32E723DECF4051AEFAC8E2C93C9C5B214313817CDB01A1494B917C8436B35
    acc = (1, 1, 0)
    base = _to_jac(G)
    kk = k
    while kk:
        if kk & 1:
            acc = _jadd(acc, base)
        base = _jdouble(base)
        kk >>= 1
    assert _from_jac(acc) == mul_g(k)
    # BIP32 test vector 1 master public key
    assert ser_c(mul_g(k)).hex() == (
        "0339a36013301597daef41fbe593a02cc513d0b55527ec2df1050e2e8ff49c85c2"
    )
    assert parse_sec(ser_c(mul_g(k))) == mul_g(k)
    assert parse_sec(ser_u(mul_g(k))) == mul_g(k)
    assert mul(k, mul_g(3)) == mul_g(3 * k)
