"""hash160 / hash256 oracles: hashlib (OpenSSL RIPEMD-160) with an independent fallback."""
import hashlib


def sha256(b):
    return hashlib.sha256(b).digest()


def hash256(b):
    return sha256(sha256(b))


# ---- independent RIPEMD-160 (structure: per-round selector tables built from the
# specification's permutation rho and pi instead of listed out) -------------------
def _rol(x, n):
    return ((x << n) | (x >> (32 - n))) & 0xFFFFFFFF


_RHO = [7, 4, 13, 1, 10, 6, 15, 3, 12, 0, 9, 5, 2, 14, 11, 8]
_PI = [(9 * i + 5) & 15 for i in range(16)]


def _perm_rounds(first):
    rounds = [first]
    for _ in range(4):
        rounds.append([_RHO[i] for i in rounds[-1]])
    return rounds


_RL = _perm_rounds(list(range(16)))
_RR = _perm_rounds(_PI)
# shift amounts, indexed [round][message word]
_SHIFT = [
    [11, 14, 15, 12, 5, 8, 7, 9, 11, 13, 14, 15, 6, 7, 9, 8],
    [12, 13, 11, 15, 6, 9, 9, 7, 12, 15, 11, 13, 7, 8, 7, 7],
    [13, 15, 14, 11, 7, 7, 6, 8, 13, 14, 13, 12, 5, 5, 6, 9],
    [14, 11, 12, 14, 8, 6, 5, 5, 15, 12, 15, 14, 9, 9, 8, 6],
    [15, 12, 13, 13, 9, 5, 8, 6, 14, 11, 12, 11, 8, 6, 5, 5],
]
_KL = [0x00000000, 0x5A827999, 0x6ED9EBA1, 0x8F1BBCDC, 0xA953FD4E]
_KR = [0x50A28BE6, 0x5C4DD124, 0x6D703EF3, 0x7A6D76E9, 0x00000000]
_F = [
    lambda x, y, z: x ^ y ^ z,
    lambda x, y, z: (x & y) | ((~x & 0xFFFFFFFF) & z),
    lambda x, y, z: (x | (~y & 0xFFFFFFFF)) ^ z,
    lambda x, y, z: (x & z) | (y & (~z & 0xFFFFFFFF)),
    lambda x, y, z: x ^ (y | (~z & 0xFFFFFFFF)),
]


def _line(h, X, sel, ks, fs):
    a, b, c, d, e = h
    for rnd in range(5):
        f = fs[rnd]
        k = ks[rnd]
        for r in sel[rnd]:
            t = (_rol((a + f(b, c, d) + X[r] + k) & 0xFFFFFFFF, _SHIFT[rnd][r]) + e) & 0xFFFFFFFF
            a, b, c, d, e = e, t, b, _rol(c, 10), d
    return a, b, c, d, e


def ripemd160_pure(msg: bytes) -> bytes:
    h = [0x67452301, 0xEFCDAB89, 0x98BADCFE, 0x10325476, 0xC3D2E1F0]
    ml = len(msg)
    padded = msg + b"\x80"
    while len(padded) % 64 != 56:
        padded += b"\x00"
    padded += (8 * ml).to_bytes(8, "little")
    for off in range(0, len(padded), 64):
        X = [int.from_bytes(padded[off + 4 * i: off + 4 * i + 4], "little") for i in range(16)]
        al, bl, cl, dl, el = _line(h, X, _RL, _KL, _F)
        ar, br, cr, dr, er = _line(h, X, _RR, _KR, _F[::-1])
        t = (h[1] + cl + dr) & 0xFFFFFFFF
        h[1] = (h[2] + dl + er) & 0xFFFFFFFF
        h[2] = (h[3] + el + ar) & 0xFFFFFFFF
        h[3] = (h[4] + al + br) & 0xFFFFFFFF
        h[4] = (h[0] + bl + cr) & 0xFFFFFFFF
        h[0] = t
    return b"".join(x.to_bytes(4, "little") for x in h)


try:
    hashlib.new("ripemd160", b"")
    HAVE_OPENSSL_RIPEMD = True
except Exception:  # pragma: no cover
    HAVE_OPENSSL_RIPEMD = False


def ripemd160(b):
    if HAVE_OPENSSL_RIPEMD:
        return hashlib.new("ripemd160", b).digest()
    return ripemd160_pure(b)


def hash160(b):
    return ripemd160(sha256(b))


_VECTORS = [
    (b"", "9c1185a5c5e9fc54612808977ee8f548b2258d31"),
    (b"a", "0bdc9d2d256b3ee9daae347be6f4dc835a467ffe"),
    (b"abc", "8eb208f7e05d987a9b044a8e98c6b087f15a0bfc"),
    (b"message digest", "5d0689ef49d2fae572b881b123a85ffa21595f36"),
    (b"abcdefghijklmnopqrstuvwxyz", "f71c27109c692c1b56bbdceb5b9d2865b3708dbc"),
    (b"abcdbcdecdefdefgefghfghighijhijkijkljklmklmnlmnomnopnopq",
     "12a053384a9c0c88e405a06c27dcf49ada62eb2b"),
    (b"ABCDEFGHIJKLMNOPQRSTUVWXYZabcdefghijklmnopqrstuvwxyz0123456789",
     "b0e20b6e3116640286ed3a87a5713079b21f5189"),
    (b"1234567890" * 8, "9b752e45573d4b39f4dbd3323cab82bf63326bfb"),
]


def selftest():
    for m, hx in _VECTORS:
        assert ripemd160_pure(m).hex() == hx, m
        assert ripemd160(m).hex() == hx, m
    for n in range(0, 200):
        m = bytes((i * 7 + n) & 0xFF for i in range(n))
        assert ripemd160_pure(m) == ripemd160(m)
