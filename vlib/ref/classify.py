"""Classify an arbitrary string with the independent decoders."""
import re
from . import b58, bech, bip32, bip39, secp

_HEX = re.compile(r"^[0-9a-fA-F]+$")


def classify(s):
    """-> dict(kind=..., net='main'|'test'|None, private=bool, ...). kind 'other' if unknown."""
    if not isinstance(s, str) or not s:
        return {"kind": "other", "net": None, "private": False}
    raw = b58.decode_check(s)
    if raw is not None:
        if len(raw) == 21 and raw[0] in (0x00, 0x05, 0x6F, 0xC4):
            return {"kind": "p2pkh" if raw[0] in (0x00, 0x6F) else "p2sh",
                    "net": "main" if raw[0] in (0x00, 0x05) else "test",
                    "private": False, "hash": raw[1:], "version": raw[0]}
        if len(raw) in (33, 34) and raw[0] in (0x80, 0xEF) and (len(raw) == 33 or raw[-1] == 1):
            k = int.from_bytes(raw[1:33], "big")
            if 0 < k < secp.N:
                return {"kind": "wif", "net": "main" if raw[0] == 0x80 else "test",
                        "private": True, "k": k, "compressed": len(raw) == 34}
        if len(raw) == 78:
            version = int.from_bytes(raw[:4], "big")
            parsed = bip32.parse_payload(raw)
            if parsed is not None:
                node = parsed[1]
                info = bip32.SLIP132.get(version)
                private = node.k is not None
                if info is None:
                    return {"kind": "xkey-unknown-version", "net": None, "private": private,
                            "node": node, "version": version}
                typ, testnet, purpose = info
                return {"kind": "xprv" if private else "xpub", "net": "test" if testnet else "main",
                        "private": private, "node": node, "version": version,
                        "version_type": typ, "purpose": purpose}
        return {"kind": "base58check-other", "net": None, "private": False, "raw": raw}
    low = s.lower()
    pos = low.rfind("1")
    if pos >= 1:
        hrp = low[:pos]
        r = bech.segwit_decode(hrp, s)
        if r is not None:
            net = {"bc": "main", "tb": "test"}.get(hrp)
            return {"kind": "segwit", "net": net, "private": False, "hrp": hrp,
                    "witver": r[0], "program": r[1]}
    d = bip39.decode(s)
    if d is not None and d[1]:
        return {"kind": "bip39", "net": None, "private": True, "entropy": d[0]}
    if _HEX.match(s) and len(s) % 2 == 0:
        return {"kind": "hex", "net": None, "private": False, "bytes": bytes.fromhex(s)}
    return {"kind": "other", "net": None, "private": False}


def selftest():
    assert classify("1PMycacnJaSqwwJqjawXBErnLsZ7RkXUAs")["kind"] == "p2pkh"
    assert classify("bc1qw508d6qejxtdg4y5r3zarvary0c5xw7kv8f3t4")["net"] == "main"
    assert classify("Kzyv4uF39d4Jrw2W7UryTHwZr1zQVNk4dAFyqE6BuMrMh1Za7uhp")["kind"] == "wif"
    c = classify("xprv9s21ZrQH143K2LBWUUQRFXhucrQqBpKdRRxNVq2zBqsx8HVqFk2uYo8kmbaLLHRdqt"
                 "QpUm98uKfu3vca1LqdGhUtyoFnCNkfmXRyPXLjbKb")
    assert c["kind"] == "xprv" and c["net"] == "main" and c["purpose"] == 44
    assert classify("legal winner thank year wave sausage worth useful legal winner thank yellow")[
        "kind"] == "bip39"
    assert classify("00ff")["kind"] == "hex"
    assert classify("m/44'/0'")["kind"] == "other"
