"""Small helpers shared by property modules."""
from vlib.engine import Violation


def call(f, *a, **kw):
    """-> ('ok', value) or ('exc', exception). Only `Exception` is a clean rejection."""
    try:
        return "ok", f(*a, **kw)
    except Exception as e:  # noqa: BLE001
        return "exc", e


def must_raise(sig, what, f, *a, **kw):
    """The call must be rejected with an Exception; returning anything is the violation."""
    st, v = call(f, *a, **kw)
    if st == "ok":
        raise Violation(sig, "%s returned %s instead of raising" % (what, _r(v)))
    # a request that was refused is refused again when it is repeated (a refusal must not leave usable state behind)
    st2, v2 = call(f, *a, **kw)
    if st2 == "ok":
        raise Violation(sig + "/accepted-on-retry", "%s was refused once (%r) and returned %s when repeated" % (what, v, _r(v2)))
    return v


def must_return(sig, what, f, *a, **kw):
    st, v = call(f, *a, **kw)
    if st == "exc":
        raise Violation(sig, "%s raised %r instead of returning a value" % (what, v))
    return v


def expect_eq(sig, what, got, want):
    if got != want:
        raise Violation(sig, "%s: got %s, expected %s" % (what, _r(got), _r(want)))


def _r(v, limit=200):
    if isinstance(v, (bytes, bytearray)):
        s = "0x" + bytes(v).hex()
    else:
        try:
            s = repr(v)
        except Exception:  # noqa: BLE001
            s = "<%s>" % type(v).__name__
    return s if len(s) <= limit else s[:limit] + "..."
