"""Small helpers for the clauses that run several threads under the deterministic scheduler (vlib/sched.py)."""
import os

from hypothesis import strategies as st


def plans(max_threads=3, max_run=10, max_len=50):
    """A schedule is a plain generated value: [(thread choice, run length in traced lines), ...] (cycled)."""
    return st.lists(st.tuples(st.integers(0, max_threads - 1), st.integers(1, max_run)), min_size=3, max_size=max_len)


def library_files(*names):
    """Absolute source paths of btc_hd_wallet modules (all of them when no name is given)."""
    import btc_hd_wallet
    base = os.path.dirname(btc_hd_wallet.__file__)
    if not names:
        names = [f[:-3] for f in os.listdir(base) if f.endswith(".py")]
    return [os.path.join(base, n + ".py") for n in names if os.path.exists(os.path.join(base, n + ".py"))]


def run_scheduled(plan, thunks, files=None, ctx=None, min_switches=2):
    """-> (results: {thread: value}, errors: {thread: exception}); counts switches into ctx and sets ctx.nontrivial."""
    from vlib.sched import Scheduler
    sched = Scheduler([tuple(x) for x in plan], files if files is not None else library_files())
    results, errors = sched.run(list(thunks))
    if ctx is not None:
        ctx.count("switches", sched.switches)
        ctx.nontrivial = sched.switches >= min_switches
    return results, errors
