"""Property-based-testing driver: hypothesis search + exhaustive sub-domain sweeps, sharded over
worker processes, with counters, evidence, replay files and known-finding matching.

A run is a pure function of the repository tree and VERIF_SEED.
"""
import hashlib
import importlib
import json
import multiprocessing
import os
import sys
import time
import traceback
from collections import Counter

VERIF_DIR = os.path.dirname(os.path.dirname(os.path.abspath(__file__)))
SHRINK_BUDGET_S = {"quick": 40.0, "thorough": 240.0}
MAX_ROUNDS = 5


class Violation(Exception):
    """The property is broken for this case. `sig` names clause, site and shape of the outcome."""

    def __init__(self, sig, detail=""):
        super().__init__("%s: %s" % (sig, detail))
        self.sig = sig
        self.detail = detail


class HarnessError(Exception):
    pass


class Ctx:
    """Per-shard counters a check may bump (lenient acceptances, skipped comparisons, ...)."""

    def __init__(self):
        self.counters = Counter()
        self.nontrivial = None   # a check may decide non-triviality from what actually happened in the run

    def count(self, label, n=1):
        self.counters[label] += n


class Clause:
    def __init__(self, name, check, rule, gen=None, enum=None, nontrivial=None, key=None,
                 classes=None, n=None, shards=None, exhaustive=False, enum_desc=None, fuzz=None):
        self.name = name
        self.check = check
        self.rule = rule
        self.gen = gen
        self.enum = enum
        self.nontrivial = nontrivial or (lambda case: True)
        self.key = key or (lambda case: case)
        self.classes = classes
        self.n = n or {"quick": 500, "thorough": 20000}
        self.shards = shards or {"quick": 4, "thorough": 16}
        self.exhaustive = exhaustive
        self.enum_desc = enum_desc
        # coverage-guided campaigns on a byte-level oracle: {"runs": {tier: n}, "campaigns": {tier: k},
        #  "max_len": L, "corpus": [bytes, ...]}; the clause's check takes {"data": bytes}
        self.fuzz = fuzz


# ----------------------------------------------------------------------------------------------
# plain-data encoding of cases (replay files, samples, keys)
def enc(o):
    if isinstance(o, (bytes, bytearray)):
        return {"$b": bytes(o).hex()}
    if isinstance(o, (list, tuple)):
        return [enc(x) for x in o]
    if isinstance(o, dict):
        return {str(k): enc(v) for k, v in o.items()}
    if isinstance(o, (str, int, bool)) or o is None:
        return o
    if isinstance(o, float):
        return o
    raise TypeError("case contains non-plain value %r" % (o,))


def dec(o):
    if isinstance(o, dict):
        if set(o.keys()) == {"$b"}:
            return bytes.fromhex(o["$b"])
        return {k: dec(v) for k, v in o.items()}
    if isinstance(o, list):
        return [dec(x) for x in o]
    return o


def canon(o):
    return json.dumps(enc(o), sort_keys=True, separators=(",", ":"), ensure_ascii=True)


def digest8(o):
    return hashlib.sha256(canon(o).encode()).digest()[:8]


def _short(o, limit=700):
    s = canon(o)
    if len(s) <= limit:
        return enc(o)
    return {"truncated_json": s[:limit] + "...", "json_len": len(s)}


def derive_seed(*parts):
    h = hashlib.sha256("/".join(str(p) for p in parts).encode()).digest()
    return int.from_bytes(h[:8], "big")


# ----------------------------------------------------------------------------------------------
def repo_dir():
    return os.path.abspath(os.environ.get("VERIF_REPO", "/repo"))


def bind_repo():
    """Put the chosen tree first on sys.path and make sure that is what gets imported."""
    from vlib import patch as _patch
    _patch.install_os_random_probes()     # before the library is imported (import-time bindings see the probes)
    repo = repo_dir()
    sys.dont_write_bytecode = True
    os.environ["PYTHONDONTWRITEBYTECODE"] = "1"
    if sys.path[0] != repo:
        sys.path.insert(0, repo)
    import btc_hd_wallet
    got = os.path.abspath(btc_hd_wallet.__file__)
    if not got.startswith(repo + os.sep):
        raise HarnessError("btc_hd_wallet imported from %s, not from %s" % (got, repo))
    return repo


def load_prop(prop_id):
    return importlib.import_module("vlib.props.%s" % prop_id.lower())


def _impl_frame_in(tb_exc):
    pkg = os.path.join(repo_dir(), "btc_hd_wallet") + os.sep
    for fr in traceback.extract_tb(tb_exc.__traceback__):
        if os.path.abspath(fr.filename).startswith(pkg):
            return True
    return False


def load_known():
    path = os.path.join(VERIF_DIR, "known_findings.json")
    if not os.path.exists(path):
        return {"open": [], "fixed": []}
    with open(path) as f:
        return json.load(f)


class _ShardState:
    def __init__(self, prop_id, clause, tier, known_open, suppressed):
        self.prop_id = prop_id
        self.clause = clause
        self.tier = tier
        self.known_open = known_open
        self.suppressed = suppressed
        self.ctx = Ctx()
        self.evals = 0
        self.extra_nt = 0
        self.keys = set()
        self.classes = Counter()
        self.known_hits = Counter()
        self.known_examples = {}
        self.suppressed_hits = 0
        self.samples = []
        self.nt_samples = []
        self.fail = None       # (case, sig, detail) latest failing case in the hypothesis run
        self.t_fail = None
        self.failures = {}     # sig -> (case, detail)
        self.deadline = time.time() + float(os.environ.get("VERIF_SHARD_DEADLINE", SHARD_DEADLINE_S.get(tier, 1500)))
        self.case_limit = int(float(os.environ.get("VERIF_CASE_LIMIT", CASE_LIMIT_S.get(tier, 300))))
        self.skipped_after_deadline = 0
        self.timed_out_cases = 0

    def to_violation(self, exc):
        """Map an exception escaping a check to a Violation or re-raise as harness error."""
        if isinstance(exc, Violation):
            return exc
        if _impl_frame_in(exc):
            tb = traceback.extract_tb(exc.__traceback__)
            where = "?"
            pkg = os.path.join(repo_dir(), "btc_hd_wallet") + os.sep
            for fr in tb:
                if os.path.abspath(fr.filename).startswith(pkg):
                    where = "%s:%s" % (os.path.basename(fr.filename), fr.name)
            return Violation("%s/%s/impl-exception:%s@%s" % (
                self.prop_id, self.clause.name, type(exc).__name__, where),
                "unexpected exception from the implementation: %r" % (exc,))
        # the check itself tripped over what the implementation handed back (a missing key, a None where a record was
        # expected, ...): the output does not have the shape the property describes.  RuntimeError is reserved for the
        # harness's own self-checks and stays a harness error.
        if isinstance(exc, (KeyError, IndexError, TypeError, AttributeError, ValueError, AssertionError)) and not isinstance(exc, RuntimeError):
            tb = traceback.extract_tb(exc.__traceback__)
            props_dir = os.path.join(VERIF_DIR, "vlib", "props") + os.sep
            last = tb[-1] if tb else None
            if last is not None and os.path.abspath(last.filename).startswith(props_dir):
                return Violation("%s/%s/output-not-processable:%s@%s" % (self.prop_id, self.clause.name, type(exc).__name__, last.name),
                                 "the check could not process what the implementation returned (%s line %d: %r)"
                                 % (os.path.basename(last.filename), last.lineno, exc))
        return None

    def run_case(self, case):
        if time.time() > self.deadline:
            self.skipped_after_deadline += 1
            return
        self.evals += 1
        import signal

        def on_alarm(signum, frame):
            raise CaseTimeout()
        armed = False
        try:
            if hasattr(signal, "SIGALRM"):
                signal.signal(signal.SIGALRM, on_alarm)
                signal.alarm(self.case_limit)
                armed = True
        except ValueError:          # not in the main thread of the worker
            armed = False
        try:
            try:
                self.clause.check(case, self.ctx)
            finally:
                if armed:
                    signal.alarm(0)
        except CaseTimeout:
            # inconclusive: stop spending time in this shard, report nothing
            self.timed_out_cases += 1
            self.deadline = 0
            return
        except BaseException as exc:  # noqa: BLE001
            if isinstance(exc, (KeyboardInterrupt, SystemExit, MemoryError)):
                raise
            if type(exc).__module__.startswith("hypothesis"):
                raise
            v = self.to_violation(exc)
            if v is None:
                raise
            if v.sig in self.known_open:
                self.known_hits[v.sig] += 1
                self.known_examples.setdefault(v.sig, _short(case))
                self._account(case)
                return
            if v.sig in self.suppressed:
                self.suppressed_hits += 1
                return
            self.fail = (case, v.sig, v.detail)
            if self.t_fail is None:
                self.t_fail = time.time()
            raise v
        # a check that enumerates a finite space inside one call reports its size here
        self.evals += self.ctx.counters.pop("__extra_evals__", 0)
        self.extra_nt += self.ctx.counters.pop("__extra_nontrivial__", 0)
        self._account(case)

    def _account(self, case):
        nt = self.ctx.nontrivial
        self.ctx.nontrivial = None
        if nt is None:
            nt = bool(self.clause.nontrivial(case))
        if nt:
            self.keys.add(digest8(self.clause.key(case)))
        if self.clause.classes is not None:
            for lab in self.clause.classes(case):
                self.classes[lab] += 1
        if len(self.samples) < 2:
            self.samples.append(_short(case))
        elif nt and len(self.nt_samples) < 2:
            self.nt_samples.append(_short(case))


class CaseTimeout(BaseException):
    """A single case ran longer than the per-case limit (not an Exception: helper wrappers must not swallow it)."""


# wall-clock limits per shard; a limit that is hit makes the run INCONCLUSIVE for the rest of that shard, never a violation
SHARD_DEADLINE_S = {"quick": 1500, "thorough": 6 * 3600}
CASE_LIMIT_S = {"quick": 300, "thorough": 1800}


def _run_shard(task):
    (prop_id, clause_name, shard, nshards, tier, seed, suppressed) = task
    t0 = time.time()
    out = {"prop": prop_id, "clause": clause_name, "shard": shard, "error": None}
    try:
        bind_repo()
        mod = load_prop(prop_id)
        clause = {c.name: c for c in mod.clauses()}[clause_name]
        known_open = {k["signature"] for k in load_known()["open"] if k["property"] == prop_id}
        st = _ShardState(prop_id, clause, tier, known_open, set(suppressed))
        enum_count = 0
        # 1. exhaustive sub-domain
        if clause.enum is not None:
            for idx, case in enumerate(clause.enum(tier)):
                if idx % nshards != shard:
                    continue
                enum_count += 1
                try:
                    st.run_case(case)
                except Violation as v:
                    old = st.failures.get(v.sig)
                    if old is None or len(canon(case)) < len(canon(old[0])):
                        st.failures[v.sig] = (case, v.detail)
        # 2. generated search
        hyp_count = 0
        if clause.gen is not None:
            total = max(1, int(clause.n[tier] * float(os.environ.get("VERIF_SCALE", "1"))))
            n = total // nshards + (1 if shard < total % nshards else 0)
            if n > 0:
                before = st.evals
                _run_hypothesis(st, clause, n, derive_seed(seed, prop_id, clause_name, shard, len(suppressed)), tier)
                hyp_count = st.evals - before
        out.update({
            "evals": st.evals, "enum": enum_count, "hyp": hyp_count,
            "keys": st.keys, "extra_nt": st.extra_nt, "classes": dict(st.classes), "counters": dict(st.ctx.counters),
            "known_hits": dict(st.known_hits), "known_examples": st.known_examples,
            "suppressed_hits": st.suppressed_hits,
            "samples": st.samples + st.nt_samples,
            "failures": {sig: (enc(case), detail) for sig, (case, detail) in st.failures.items()},
            "skipped_after_deadline": st.skipped_after_deadline, "timed_out_cases": st.timed_out_cases,
        })
    except BaseException as exc:  # noqa: BLE001
        out["error"] = "".join(traceback.format_exception(type(exc), exc, exc.__traceback__))
    out["wall"] = time.time() - t0
    return out


def _run_hypothesis(st, clause, n, seed, tier):
    from hypothesis import HealthCheck, Phase, Verbosity, given, settings
    from hypothesis import seed as hseed

    budget = SHRINK_BUDGET_S[tier]
    st.fail = None
    st.t_fail = None

    @hseed(seed)
    @settings(max_examples=n, database=None, deadline=None, report_multiple_bugs=False,
              derandomize=False, verbosity=Verbosity.quiet,
              phases=(Phase.generate, Phase.shrink),
              suppress_health_check=[HealthCheck.too_slow, HealthCheck.data_too_large,
                                     HealthCheck.large_base_example])
    @given(clause.gen(tier))
    def prop(case):
        if st.t_fail is not None and time.time() - st.t_fail > budget:
            return  # shrink budget used up: let the shrinker terminate
        st.run_case(case)

    try:
        prop()
    except Violation:
        pass
    except BaseException:  # noqa: BLE001
        if st.fail is None:
            raise
        # Flaky / etc. caused by the shrink budget cut-off: the recorded case stands
    if st.fail is not None:
        case, sig, detail = st.fail
        st.failures[sig] = (case, detail)


# ----------------------------------------------------------------------------------------------
def replay_case(prop_id, clause_name, case):
    """Run one stored case straight through the clause's check (no hypothesis)."""
    mod = load_prop(prop_id)
    clause = {c.name: c for c in mod.clauses()}[clause_name]
    st = _ShardState(prop_id, clause, "quick", set(), set())
    try:
        st.run_case(case)
    except Violation as v:
        return v
    return None


def _write_replay(prop_id, clause_name, sig, case_enc, detail, seed, tier):
    d = os.path.join(VERIF_DIR, "replays")
    os.makedirs(d, exist_ok=True)
    dg = hashlib.sha256((sig + canon(case_enc)).encode()).hexdigest()[:12]
    path = os.path.join(d, "%s-%s-%s.json" % (prop_id, clause_name, dg))
    with open(path, "w") as f:
        json.dump({"property": prop_id, "clause": clause_name, "signature": sig,
                   "case": case_enc, "detail": detail, "seed": seed, "tier": tier,
                   "python_optimized": bool(sys.flags.optimize),
                   "replay_cmd": "/venv/bin/python check.py %s --replay %s" % (prop_id, path)},
                  f, indent=1, sort_keys=True)
    return path



# ----------------------------------------------------------------------------------------------
# coverage-guided fuzzing (atheris / libFuzzer) of byte-level oracles
def ensure_atheris():
    deps = os.path.join(VERIF_DIR, ".deps")
    if os.path.isdir(os.path.join(deps, "atheris")):
        return True
    import subprocess
    r = subprocess.run([sys.executable, "-m", "pip", "install", "--no-index", "--find-links", "/opt/veriftools/wheels",
                        "--target", deps, "atheris"], capture_output=True, text=True)
    return r.returncode == 0 and os.path.isdir(os.path.join(deps, "atheris"))


def _fuzz_campaign(args):
    import re
    import shutil
    import subprocess
    prop_id, cname, name, runs, fseed, max_len, corpus = args
    # fresh corpus directory, private to this run (concurrent runs of the same check must not collide)
    work = os.path.join(VERIF_DIR, ".work", "fuzz", "%s-%s-%s-%d" % (prop_id, cname, name, os.getpid()))
    shutil.rmtree(work, ignore_errors=True)
    cdir = os.path.join(work, "corpus")
    os.makedirs(cdir)
    for i, b in enumerate(corpus):
        with open(os.path.join(cdir, "seed-%03d" % i), "wb") as f:
            f.write(b)
    cmd = [sys.executable, os.path.join(VERIF_DIR, "fuzz", "run_target.py"), prop_id, cname,
           "-runs=%d" % runs, "-seed=%d" % (fseed % (2 ** 31 - 1) + 1), "-max_len=%d" % max_len,
           "-artifact_prefix=%s/crash-" % work, "-print_final_stats=1", "-timeout=60", cdir]
    env = dict(os.environ, PYTHONHASHSEED="0")
    t0 = time.time()
    r = subprocess.run(cmd, capture_output=True, text=True, env=env, cwd=work)
    err = r.stderr
    m = re.search(r"stat::number_of_executed_units:\s+(\d+)", err)
    executed = int(m.group(1)) if m else 0
    m = re.search(r"stat::new_units_added:\s+(\d+)", err)
    new_units = int(m.group(1)) if m else 0
    crashes = []
    for fn in sorted(os.listdir(work)):
        if fn.startswith("crash-"):
            with open(os.path.join(work, fn), "rb") as f:
                crashes.append(f.read())
    ok = (r.returncode == 0) or bool(crashes)
    shutil.rmtree(work, ignore_errors=True)
    return {"name": name, "runs_requested": runs, "executed": executed, "new_units": new_units, "seed": fseed,
            "seed_corpus": len(corpus), "crashes": crashes, "ok": ok, "returncode": r.returncode,
            "stderr_tail": err[-1500:] if not ok else "", "wall_s": round(time.time() - t0, 1)}


def _minimise(prop_id, cname, data, sig, budget=3000):
    """Greedy chunk removal keeping the same violation signature."""
    evals = 0
    cur = data
    chunk = max(1, len(cur) // 2)
    while chunk >= 1 and evals < budget:
        i = 0
        changed = False
        while i < len(cur) and evals < budget:
            cand = cur[:i] + cur[i + chunk:]
            evals += 1
            v = replay_case(prop_id, cname, {"data": cand})
            if v is not None and v.sig == sig:
                cur = cand
                changed = True
            else:
                i += chunk
        if not changed:
            chunk //= 2
    return cur


def run_fuzz(prop_id, clauses, tier, seed, known_sigs):
    """-> (per-clause info, failures {(clause, sig): (case_enc, detail)}, notes)."""
    from concurrent.futures import ThreadPoolExecutor
    todo = [c for c in clauses if c.fuzz and c.fuzz.get("campaigns", {}).get(tier, 0) > 0]
    info, failures, notes = {}, {}, []
    if not todo:
        return info, failures, notes
    if not ensure_atheris():
        notes.append("atheris could not be installed from the local wheelhouse: coverage-guided campaigns skipped")
        return info, failures, notes
    jobs = []
    for c in todo:
        k = c.fuzz["campaigns"][tier]
        runs = c.fuzz["runs"][tier]
        for j in range(k):
            seeded = (j % 2 == 1)
            jobs.append((prop_id, c.name, "%s%d" % ("seeded" if seeded else "empty", j), runs,
                         derive_seed(seed, prop_id, c.name, "fuzz", j), c.fuzz.get("max_len", 256),
                         list(c.fuzz.get("corpus", [])) if seeded else []))
    with ThreadPoolExecutor(max_workers=min(16, len(jobs))) as ex:
        results = list(ex.map(_fuzz_campaign, jobs))
    for job, r in zip(jobs, results):
        cname = job[1]
        d = info.setdefault(cname, {"campaigns": [], "executions": 0, "coverage_increasing_inputs": 0})
        d["campaigns"].append({k: v for k, v in r.items() if k not in ("crashes", "stderr_tail")} | {"crashes": len(r["crashes"])})
        d["executions"] += r["executed"]
        d["coverage_increasing_inputs"] += r["new_units"]
        if not r["ok"]:
            notes.append("campaign %s/%s failed to run (rc=%s): %s" % (cname, r["name"], r["returncode"], r["stderr_tail"][-300:]))
        for data in r["crashes"]:
            v = replay_case(prop_id, cname, {"data": data})
            if v is None:
                notes.append("fuzz crash in %s did not reproduce on replay (%d bytes)" % (cname, len(data)))
                continue
            if v.sig in known_sigs:
                continue
            small = _minimise(prop_id, cname, data, v.sig)
            v2 = replay_case(prop_id, cname, {"data": small}) or v
            key = (cname, v.sig)
            if key not in failures or len(small) < len(dec(failures[key][0])["data"]):
                failures[key] = (enc({"data": small}), v2.detail)
    return info, failures, notes


def run_optimized(prop_id, clause_names, tier, seed):
    """Run the named clauses again under `python -O` (asserts stripped) at a reduced budget.
    -> (info for the evidence, [(sig, replay, detail)], return code of the sub-run)."""
    import subprocess
    env = dict(os.environ, VERIF_SUBRUN="1", VERIF_CLAUSES=",".join(clause_names), VERIF_SEED=str(seed),
               VERIF_SCALE=os.environ.get("VERIF_OPT_SCALE", "0.2"), PYTHONHASHSEED="0")
    t0 = time.time()
    r = subprocess.run([sys.executable, "-O", os.path.join(VERIF_DIR, "check.py"), prop_id, "--tier", tier],
                       capture_output=True, text=True, env=env, cwd=VERIF_DIR)
    info = {"run": True, "interpreter_flags": "-O", "clauses": clause_names, "wall_s": round(time.time() - t0, 1),
            "returncode": r.returncode}
    viol = []
    for line in r.stdout.splitlines():
        if line.startswith("SUBRUN-STATS "):
            info.update(json.loads(line[len("SUBRUN-STATS "):]))
        elif line.startswith("SUBRUN-VIOLATION "):
            v = json.loads(line[len("SUBRUN-VIOLATION "):])
            viol.append((v["sig"] + " [python -O]", v["replay"], v["detail"]))
    if r.returncode not in (0, 1) or (r.returncode == 1 and not viol):
        info["tail"] = (r.stdout[-1500:] + r.stderr[-1500:])
        return info, viol, 2
    return info, viol, r.returncode


def run_property(prop_id, tier, seed, workers=None):
    """Returns exit code. Prints VIOLATION / KNOWN-FINDING lines, writes evidence."""
    t0 = time.time()
    bind_repo()
    from vlib import ref
    try:
        ref.selftest_all()
    except Exception:
        traceback.print_exc()
        print("HARNESS-ERROR reference self-test failed")
        return 2
    mod = load_prop(prop_id)
    clauses = mod.clauses()
    subrun = os.environ.get("VERIF_SUBRUN") == "1"
    if subrun:
        only = set(os.environ.get("VERIF_CLAUSES", "").split(","))
        clauses = [c for c in clauses if c.name in only]
    known = load_known()
    known_open = [k for k in known["open"] if k["property"] == prop_id]
    known_sigs = {k["signature"] for k in known_open}
    violations = []   # (sig, replay path, detail)
    known_seen = Counter()

    # replay tier: committed regressions and known-finding witnesses
    reg_dir = os.path.join(VERIF_DIR, "regress")
    n_regress = 0
    for fn in sorted(os.listdir(reg_dir)) if os.path.isdir(reg_dir) else []:
        if not (fn.startswith(prop_id + "-") and fn.endswith(".json")):
            continue
        with open(os.path.join(reg_dir, fn)) as f:
            rec = json.load(f)
        n_regress += 1
        v = replay_case(prop_id, rec["clause"], dec(rec["case"]))
        if v is None:
            continue
        if v.sig in known_sigs:
            known_seen[v.sig] += 1
            continue
        violations.append((v.sig, os.path.join(reg_dir, fn), v.detail))

    workers = workers or int(os.environ.get("VERIF_WORKERS", "16"))
    agg = {c.name: {"evals": 0, "enum": 0, "hyp": 0, "keys": set(), "extra_nt": 0, "classes": Counter(),
                    "counters": Counter(), "samples": [], "known_hits": Counter(),
                    "suppressed_hits": 0, "wall": 0.0} for c in clauses}
    errors = []
    found = {}  # (clause, sig) -> (case_enc, detail)
    suppressed = {c.name: [] for c in clauses}
    pending = [c for c in clauses]
    ctx = multiprocessing.get_context("fork")
    for rnd in range(MAX_ROUNDS):
        tasks = []
        for c in pending:
            ns = c.shards[tier]
            for sh in range(ns):
                tasks.append((prop_id, c.name, sh, ns, tier, seed, tuple(suppressed[c.name])))
        if not tasks:
            break
        # ProcessPoolExecutor: a worker that dies (OOM, signal) surfaces as BrokenProcessPool, not as a hang
        from concurrent.futures import ProcessPoolExecutor
        from concurrent.futures.process import BrokenProcessPool
        try:
            with ProcessPoolExecutor(max_workers=min(workers, len(tasks)), mp_context=ctx) as pool:
                results = list(pool.map(_run_shard, tasks, chunksize=1))
        except BrokenProcessPool as exc:
            print("HARNESS-ERROR property=%s a worker process died: %r" % (prop_id, exc))
            return 2
        new_fail = {}
        for r in results:
            a = agg[r["clause"]]
            if r["error"]:
                errors.append((r["clause"], r["shard"], r["error"]))
                continue
            if rnd == 0:
                a["evals"] += r["evals"]; a["enum"] += r["enum"]; a["hyp"] += r["hyp"]
                a["keys"] |= r["keys"]
                a["extra_nt"] += r["extra_nt"]
                a["classes"].update(r["classes"]); a["counters"].update(r["counters"])
                if len(a["samples"]) < 6:
                    a["samples"].extend(r["samples"][: 6 - len(a["samples"])])
            else:
                a["evals"] += r["evals"]
            a["known_hits"].update(r["known_hits"])
            for sig, ex in r["known_examples"].items():
                known_seen[sig] += r["known_hits"].get(sig, 0)
            a["suppressed_hits"] += r["suppressed_hits"]
            a["wall"] = max(a["wall"], r["wall"])
            a["inconclusive"] = a.get("inconclusive", 0) + r.get("skipped_after_deadline", 0) + r.get("timed_out_cases", 0)
            for sig, (case_enc, detail) in r["failures"].items():
                k = (r["clause"], sig)
                old = new_fail.get(k)
                if old is None or len(canon(case_enc)) < len(canon(old[0])):
                    new_fail[k] = (case_enc, detail)
        if errors:
            break
        pending = []
        for (cname, sig), val in new_fail.items():
            if (cname, sig) not in found:
                found[(cname, sig)] = val
            if sig not in suppressed[cname]:
                suppressed[cname].append(sig)
        for c in clauses:
            if any(cn == c.name for (cn, _s) in new_fail):
                pending.append(c)

    fuzz_info, fuzz_notes = {}, []
    if not errors and not subrun:
        fuzz_info, fuzz_fail, fuzz_notes = run_fuzz(prop_id, clauses, tier, seed, known_sigs)
        for k, val in fuzz_fail.items():
            found.setdefault(k, val)
    # the same rejection-type clauses once more in an interpreter started with -O (assert statements stripped)
    opt_info = None
    if not errors and not subrun and getattr(mod, "OPTIMIZED", None):
        opt_info, opt_viol, opt_rc = run_optimized(prop_id, list(mod.OPTIMIZED), tier, seed)
        if opt_rc == 2:
            print("HARNESS-ERROR property=%s the python -O sub-run failed:\n%s" % (prop_id, opt_info.get("tail", "")))
            return 2
        violations.extend(opt_viol)
    for (cname, sig), (case_enc, detail) in sorted(found.items()):
        path = _write_replay(prop_id, cname, sig, case_enc, detail, seed, tier)
        violations.append((sig, path, detail))

    if subrun:
        # sub-run: report to the parent on stdout, write no evidence
        for sig, path, detail in violations:
            print("SUBRUN-VIOLATION %s" % json.dumps({"sig": sig, "replay": path, "detail": str(detail)[:600]}))
        if errors:
            for cname, sh, err in errors[:3]:
                print("HARNESS-ERROR property=%s clause=%s shard=%s\n%s" % (prop_id, cname, sh, err))
            return 2
        print("SUBRUN-STATS %s" % json.dumps({"evaluations": sum(a["evals"] for a in agg.values()),
                                              "distinct_nontrivial": sum(len(a["keys"]) + a["extra_nt"] for a in agg.values()),
                                              "clauses": {c.name: agg[c.name]["evals"] for c in clauses},
                                              "known": dict(known_seen)}))
        return 1 if violations else 0
    wall = time.time() - t0
    if errors:
        for cname, sh, err in errors[:3]:
            print("HARNESS-ERROR property=%s clause=%s shard=%s\n%s" % (prop_id, cname, sh, err))
        return 2

    # evidence
    fuzz_exec = sum(d["executions"] for d in fuzz_info.values())
    fuzz_new = sum(d["coverage_increasing_inputs"] for d in fuzz_info.values())
    total_evals = sum(a["evals"] for a in agg.values()) + n_regress + fuzz_exec + ((opt_info or {}).get("evaluations", 0))
    total_nt = sum(len(a["keys"]) + a["extra_nt"] for a in agg.values()) + fuzz_new
    samples = []
    for c in clauses:
        for s in agg[c.name]["samples"][:3]:
            samples.append({"clause": c.name, "case": s})
    ev = {
        "property_id": prop_id, "tier": tier, "seed": int(seed), "level": "exploration",
        "coverage": {
            "evaluations": total_evals,
            "distinct_nontrivial": total_nt,
            "rule": getattr(mod, "RULE", "") + " || per clause: " + " || ".join(
                "%s: %s" % (c.name, c.rule) for c in clauses),
            "samples": samples,
            "exhaustive": False,
            "regress_replayed": n_regress,
            "clauses": {
                c.name: {
                    "evaluations": agg[c.name]["evals"],
                    "enumerated": agg[c.name]["enum"],
                    "enumeration": ({"exhaustive": bool(c.exhaustive), "what": c.enum_desc}
                                    if c.enum is not None else None),
                    "generated": agg[c.name]["hyp"],
                    "distinct_nontrivial": len(agg[c.name]["keys"]) + agg[c.name]["extra_nt"],
                    "classes": dict(sorted(agg[c.name]["classes"].items())),
                    "counters": dict(sorted(agg[c.name]["counters"].items())),
                    "excluded_by_known_finding": sum(agg[c.name]["known_hits"].values()),
                    "inconclusive_after_time_limit": agg[c.name].get("inconclusive", 0),
                    "shard_wall_s_max": round(agg[c.name]["wall"], 2),
                } for c in clauses},
            "known_findings_hit": dict(known_seen),
            "coverage_guided_fuzzing": {"engine": "atheris/libFuzzer", "clauses": fuzz_info, "notes": fuzz_notes,
                                        "counting": "executions are added to evaluations; inputs that increased "
                                                    "coverage (libFuzzer new_units_added) count as distinct non-trivial"},
            "optimized_interpreter": opt_info or {"run": False},
            "workers": workers,
        },
        "assumptions": list(getattr(mod, "ASSUMPTIONS", [])) + [
            "CPython, hashlib/hmac (SHA-256, SHA-512, OpenSSL RIPEMD-160), unicodedata, hypothesis",
            "reference models in vlib/ref validated against published vectors at start-up",
            "ecdsa backend of btc_hd_wallet (pysecp256k1 cannot be loaded in this sandbox)",
        ],
        "wall_s": round(wall, 3),
        "violations": len(violations),
    }
    # sensitivity runs against a scratch tree (VERIF_REPO) never touch the committed evidence
    evdir = "evidence" if repo_dir() == "/repo" else os.path.join(".work", "evidence-scratch")
    os.makedirs(os.path.join(VERIF_DIR, evdir), exist_ok=True)
    with open(os.path.join(VERIF_DIR, evdir, "%s.json" % prop_id), "w") as f:
        json.dump(ev, f, indent=1, sort_keys=True)

    for k in known_open:
        if known_seen.get(k["signature"]):
            print("KNOWN-FINDING: property=%s %s (seen %d times this run)" % (
                prop_id, k["what"], known_seen[k["signature"]]))
        else:
            print("NOTE: listed finding not reproduced this run: property=%s %s" % (prop_id, k["what"]))
    for c in clauses:
        if agg[c.name].get("inconclusive"):
            print("NOTE: property=%s clause=%s hit its wall-clock limit; %d case(s) were not evaluated (inconclusive, not a violation)"
                  % (prop_id, c.name, agg[c.name]["inconclusive"]))
    print("SUMMARY property=%s tier=%s seed=%s evaluations=%d distinct_nontrivial=%d violations=%d wall=%.1fs"
          % (prop_id, tier, seed, total_evals, total_nt, len(violations), wall))
    for cname, d in fuzz_info.items():
        print("  fuzz   %-22s executions=%d coverage-increasing=%d campaigns=%d" % (
            cname, d["executions"], d["coverage_increasing_inputs"], len(d["campaigns"])))
    for note in fuzz_notes:
        print("  NOTE: " + note)
    for cname in agg:
        a = agg[cname]
        print("  clause %-22s evals=%-8d enum=%-7d nontrivial=%-7d known=%d  %.1fs" % (
            cname, a["evals"], a["enum"], len(a["keys"]) + a["extra_nt"], sum(a["known_hits"].values()), a["wall"]))
    if violations:
        for sig, path, detail in violations:
            print("VIOLATION property=%s replay=%s" % (prop_id, path))
            print("  signature: %s\n  detail: %s" % (sig, str(detail)[:600]))
        return 1
    return 0


def run_replay(prop_id, path):
    bind_repo()
    with open(path) as f:
        rec = json.load(f)
    if rec.get("property") != prop_id:
        print("HARNESS-ERROR replay file is for %s" % rec.get("property"))
        return 2
    v = replay_case(prop_id, rec["clause"], dec(rec["case"]))
    if v is None:
        print("REPLAY property=%s clause=%s: no violation" % (prop_id, rec["clause"]))
        return 0
    known_sigs = {k["signature"] for k in load_known()["open"] if k["property"] == prop_id}
    if v.sig in known_sigs:
        print("KNOWN-FINDING: property=%s %s" % (prop_id, v.sig))
        return 0
    print("VIOLATION property=%s replay=%s" % (prop_id, os.path.abspath(path)))
    print("  signature: %s\n  detail: %s" % (v.sig, str(v.detail)[:600]))
    return 1
