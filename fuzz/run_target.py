#!/venv/bin/python
"""Coverage-guided campaign (atheris / libFuzzer) on one clause's byte-level oracle.

usage: run_target.py PROP CLAUSE [libFuzzer flags...] [corpus dirs...]
The semantic oracle (the clause's check) runs inside the target: a Violation is a crash libFuzzer saves.
"""
import os
import sys

HERE = os.path.dirname(os.path.dirname(os.path.abspath(__file__)))
sys.path.insert(0, HERE)
sys.path.insert(0, os.path.join(HERE, ".deps"))
import atheris  # noqa: E402

prop, clause_name = sys.argv[1], sys.argv[2]
argv = [sys.argv[0]] + sys.argv[3:]

from vlib import engine  # noqa: E402

with atheris.instrument_imports(include=["btc_hd_wallet"]):
    engine.bind_repo()
    import btc_hd_wallet.helper  # noqa: F401,E402
    import btc_hd_wallet.bech32  # noqa: F401,E402
    import btc_hd_wallet.script  # noqa: F401,E402
    import btc_hd_wallet.wallet_utils  # noqa: F401,E402

mod = engine.load_prop(prop)
clause = {c.name: c for c in mod.clauses()}[clause_name]
known = {k["signature"] for k in engine.load_known()["open"] if k["property"] == prop}
state = engine._ShardState(prop, clause, "thorough", known, set())


def TestOneInput(data):
    try:
        clause.check({"data": bytes(data)}, state.ctx)
    except BaseException as exc:  # noqa: BLE001
        v = state.to_violation(exc)
        if v is None:
            raise
        if v.sig in known:
            return
        raise v


atheris.Setup(argv, TestOneInput)
atheris.Fuzz()
