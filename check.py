#!/venv/bin/python
"""Entry point:  /venv/bin/python check.py C07 --tier quick
                 /venv/bin/python check.py C07 --replay replays/C07-....json
Exit 0 = held on everything explored; 1 = VIOLATION line printed; 2 = harness error."""
import argparse
import os
import sys
import traceback

HERE = os.path.dirname(os.path.abspath(__file__))
sys.path.insert(0, HERE)
os.environ.setdefault("PYTHONHASHSEED", "0")


def main():
    ap = argparse.ArgumentParser()
    ap.add_argument("prop")
    ap.add_argument("--tier", choices=["quick", "thorough"], default=None)
    ap.add_argument("--replay", default=None)
    ap.add_argument("--workers", type=int, default=None)
    a = ap.parse_args()
    tier = a.tier or os.environ.get("VERIF_TIER") or "quick"
    if tier not in ("quick", "thorough"):
        tier = "quick"
    try:
        seed = int(os.environ.get("VERIF_SEED", "1"))
    except ValueError:
        seed = 1
    try:
        from vlib import engine
        if a.replay:
            return engine.run_replay(a.prop.upper(), a.replay)
        return engine.run_property(a.prop.upper(), tier, seed, a.workers)
    except Exception:
        traceback.print_exc()
        print("HARNESS-ERROR")
        return 2


if __name__ == "__main__":
    sys.exit(main())
