#!/venv/bin/python
"""Evaluate seeded changes: for each /verif/seeded/<id>/ confirm (clean: demo passes; patched: repo tests
pass, demo fails) and run the quick checks against the patched scratch copy.

usage: seed_eval.py [ids...] [--props C01,C02|all] [--skip-confirm]
"""
import argparse, json, os, shutil, subprocess, sys, tempfile

ap = argparse.ArgumentParser()
ap.add_argument("ids", nargs="*")
ap.add_argument("--props", default=None)
ap.add_argument("--skip-confirm", action="store_true")
ap.add_argument("--tier", default="quick")
ap.add_argument("--jobs", type=int, default=1)
ap.add_argument("--seed", default=None, help="VERIF_SEED for the checks")
a = ap.parse_args()
SEED = "/verif/seeded"
ids = a.ids or sorted(os.listdir(SEED))
ALL = ["C%02d" % i for i in range(1, 21)]
summary = []


def run_one(sid):
    d = os.path.join(SEED, sid)
    if not os.path.isdir(d) or not os.path.exists(os.path.join(d, "meta.json")):
        return
    meta = json.load(open(os.path.join(d, "meta.json")))
    if meta.get("retired") and not a.ids:
        return
    prop = meta["property"]
    props = ALL if a.props == "all" else (a.props.split(",") if a.props else [prop])
    tmp = tempfile.mkdtemp(prefix="bhw-seed-")
    try:
        for sub in ("btc_hd_wallet", "tests"):
            shutil.copytree(os.path.join("/repo", sub), os.path.join(tmp, sub), ignore=shutil.ignore_patterns("__pycache__"))
        env = dict(os.environ, PYTHONPATH=tmp, PYTHONDONTWRITEBYTECODE="1")
        demo = os.path.join(d, "demo.py")
        res = {"id": sid, "property": prop}
        if not a.skip_confirm:
            r = subprocess.run(["/venv/bin/python", demo], env=env, cwd=tmp, capture_output=True, text=True, timeout=600)
            res["demo_clean"] = r.returncode
        r = subprocess.run(["patch", "-p1", "-s", "-d", tmp, "-i", os.path.join(d, "patch.diff")], capture_output=True, text=True)
        if r.returncode != 0:
            print(sid, "PATCH FAILED", r.stdout, r.stderr); summary.append((sid, "patch-failed")); return
        if not a.skip_confirm:
            r = subprocess.run(["/venv/bin/python", demo], env=env, cwd=tmp, capture_output=True, text=True, timeout=600)
            res["demo_patched"] = r.returncode
            r = subprocess.run(["/venv/bin/python", "-m", "pytest", "-q", "-p", "no:cacheprovider", "--deselect",
                                "tests/test_parser.py::TestArgumentParsing::test_invalid_file_argument", "tests"],
                               cwd=tmp, env=env, capture_output=True, text=True, timeout=900)
            res["tests"] = r.stdout.strip().splitlines()[-1] if r.stdout.strip() else "?"
        env2 = dict(os.environ, VERIF_REPO=tmp)
        if a.seed is not None:
            env2["VERIF_SEED"] = str(a.seed)
        if a.jobs > 1:
            env2["VERIF_WORKERS"] = "8"
        res["checks"] = {}
        for p in props:
            r = subprocess.run(["/venv/bin/python", "/verif/check.py", p, "--tier", a.tier], env=env2, capture_output=True, text=True)
            sigs = [l.strip()[11:] for l in r.stdout.splitlines() if l.startswith("  signature:")]
            res["checks"][p] = {"exit": r.returncode, "signatures": sigs[:6]}
            if r.returncode == 2:
                print(r.stdout[-2000:], r.stderr[-1000:])
        print(json.dumps(res), flush=True)
        caught = [p for p, v in res["checks"].items() if v["exit"] == 1]
        summary.append((sid, "CAUGHT by " + ",".join(caught) if caught else "MISSED", res.get("demo_clean"), res.get("demo_patched"), res.get("tests")))
    finally:
        shutil.rmtree(tmp, ignore_errors=True)


from concurrent.futures import ThreadPoolExecutor
with ThreadPoolExecutor(a.jobs) as ex:
    list(ex.map(run_one, ids))
shutil.rmtree("/verif/replays", ignore_errors=True)
print("\n".join(str(s) for s in sorted(summary)))
