#!/venv/bin/python
"""Writes /verif/MANIFEST.json from the table below (kept valid at all times)."""
import json
import os

HERE = os.path.dirname(os.path.dirname(os.path.abspath(__file__)))
PY = "/venv/bin/python"
BASE = ("Exploration: generated-input search (hypothesis, seeded by VERIF_SEED, sharded over 16 processes) plus complete "
        "enumeration of the finite sub-domains named below, against an oracle that shares no code with the repository; "
        "most clauses run a second time under `python -O`; thread clauses run under a deterministic scheduler that owns "
        "the interleaving. Sensitivity was measured against 278 independently written breaking changes (seeded/) and "
        "false-alarm resistance against 56 property-preserving rewrites (benign/). "
        "It does not establish absence of counter-examples outside what was explored. ")
NOTE = ("Trusted base: CPython, hashlib/hmac (SHA-256/512, OpenSSL RIPEMD-160), unicodedata, hypothesis, and the reference "
        "models in vlib/ref (own secp256k1, Base58Check, Bech32 over GF(32), BIP32/39/85, strict script parser), each "
        "validated against published vectors at start-up. Only the ecdsa backend of the library is exercised "
        "(pysecp256k1 cannot be loaded in this sandbox). ")

CHECKS = {
    "C01": ("differential PBT vs independent CKDpriv + PRF substitution",
            "Parents from scalar classes built three ways, indexes on both sides of 2^31, multi-level paths, and chosen PRF "
            "outputs (child key 1, n-1, leading zeros, wrap past n); compares key/chain code/depth/index/fingerprint and "
            "both printed strings, observes the HMAC key/data layout directly, and derives from distinct and shared "
            "parents on 2..3 threads under the deterministic scheduler; duplicates of derived nodes (copy, deepcopy, pickle) "
            "and index lists edited in place between calls.", "5/C01"),
    "C02": ("differential PBT: public vs private derivation vs independent CKDpub",
            "Normal paths of length 0..6 from three constructions of the public parent, compared after every step with the "
            "implementation's private side and with own point addition (lists, tuples, iterators; the parent with the "
            "negated key in the same process); hardened indexes must be refused by ckd, derive_path and generate_children "
            "(also after the private twin derived them, at parent depth 255, and for bulk intervals straddling 2^31); "
            "threads on a shared public node under a deterministic scheduler; leading-zero-x children searched for; nodes "
            "built with parent=<object> or from bytearrays, parents parsed from ypub/zpub strings; public data held by the "
            "private node class must still refuse hardened children; a frozen table of parents whose fingerprints collide.",
            "5/C02"),
    "C03": ("differential PBT over Unicode text vs explicit PBKDF2/HMAC model",
            "Arbitrary and NFKD-sensitive text (measured class histogram; case variants of real sentences; boundary-shifted "
            "mnemonic/passphrase pairs), seeds of 0..128 bytes incl. leading zeros and hex-looking ones, all constructors "
            "incl. new_wallet and the four CLI constructors (passphrase option and --testnet in every position/spelling: "
            "accepted lines must honour them), from_entropy_bits with a passphrase, lone-surrogate strings (must be refused), "
            "both networks.", "5/C03"),
    "C04": ("round-trip PBT through a frozen official word list + exhaustive length sweep",
            "All five sizes with patterned/uniform entropy decoded word by word; every other byte length 0..64 enumerated; "
            "whitespace/odd-length hex judged by result; the random sentence generators driven through a scripted random "
            "source substituted from outside (drawn value must be encoded exactly; bit sizes 0..520 other than the five "
            "refused); wallet-level hex entry points; concurrent encodings under the deterministic scheduler; embedded "
            "list pinned by two independent digests; radix-prefixed hex; cold-start threads.", "5/C04"),
    "C05": ("differential PBT vs independent address decoders; exhaustive hash lengths",
            "Five address kinds x two networks x node forms x key classes (incl. a frozen table of leading-zero-x keys), "
            "request order generated on one key object; keys whose HASH160 starts with 0x00; public nodes holding an "
            "uncompressed key; script templates byte for byte (two scripts alive at once); RIPEMD-160/HASH160 for every "
            "length 0..1024 (0..4096 thorough), with reused mutable buffers and from several free-running threads; one "
            "PublicKey object shared by threads asking for different forms (deterministic scheduler); flags spelled 0/1 and type "
            "names assembled at run time; the four helper encoders.", "5/C05"),
    "C06": ("model-based PBT of paper-wallet records vs independent BIP32/44/49/84 derivation",
            "Sources (mnemonic+passphrase, seed, xprv), networks, accounts incl. 2^31-1 side, intervals incl. empty/single, "
            "repeated generate() on one wallet (first record re-read afterwards); master imported under all six private "
            "versions; every field of every row decoded independently; JSON, file exports into one path, Wasabi export.",
            "5/C06"),
    "C07": ("round-trip PBT over all 12 versions (exhaustive per case) and 3 input forms",
            "Generated valid payloads serialised by the reference under every version; parse from str/bytes/stream, field "
            "equality, identical re-serialisation, xpub-of-private equals reference public payload; version table and 398 "
            "enumerated unknown versions.", "5/C07"),
    "C08": ("stateful history PBT with the OS randomness source observed from outside",
            "Histories of reseed(process-wide PRNG)/new-wallet calls over every API and length; os.urandom/random._urandom "
            "probed (installed before the library is imported) to count bytes requested; reseed pairs must differ; per-bit "
            "variation incl. the top bit over >= 96 samples per api x length (false-alarm probability < 1e-24); fault "
            "injection: the OS source raising must not yield a wallet; an invalid first master key must not make the "
            "creation fall back to the seedable PRNG; a scripted OS stream in which every consumed bit is inverted in turn "
            "(at least ENT bits must influence the sentence).", "5/C08"),
    "C09": ("round-trip + constructed-rejection PBT vs own secp256k1",
            "Scalars incl. low-byte-01 class through every constructor, four WIF flavours, both SEC forms; bad scalars at "
            "every construction site; every length 0..70; off-curve encodings decided by own Legendre symbol; after each "
            "valid key, wrong-length encodings of the same integer and the negated point (same x) in the same process.",
            "5/C09"),
    "C10": ("round-trip PBT + constructed invalid checksums vs independent Base58Check",
            "Leading-zero construction, strings over the alphabet, each checksum byte corrupted alone, truncations, string "
            "edits incl. look-alikes, valid-then-corrupted decode order; byte-level clause also driven by coverage-guided "
            "atheris/libFuzzer campaigns with the reference decoder as in-target oracle; values next to powers of 58 and "
            "256; cold-start clause: a fresh interpreter whose first Base58 calls run on several threads; white space and "
            "non-ASCII look-alikes around valid strings; the caller's bytearray after encoding.", "5/C10"),
    "C11": ("differential PBT vs GF(32) Bech32 model + complete weight<=4 error enumeration",
            "All (version,length) pairs exhaustively; one-rule-at-a-time rejections with valid checksums for arbitrary "
            "constants; all 2,390,287 error patterns of weight <= 2 over 71 positions have distinct syndromes (so none of "
            "weight <= 4 is undetected), none of weight <= 3 flips the constant, all 858 weight-4 flips applied end to end; "
            "Unicode case-folding substitutions; byte-level clause also under atheris/libFuzzer.", "5/C11"),
    "C12": ("differential PBT vs independent BIP85 with exhaustive parameter sweep",
            "All allowed parameters x masters x indexes, five call routes, recorded derivation path, out-of-range parameters "
            "and indexes on both sides of every bound, searched leading-zero derived keys; threads mixing BIP85 requests "
            "with wallet derivations on the same master node; invalid child at a generated level of the application "
            "path must fail the request.", "5/C12"),
    "C13": ("model-based history PBT + generated thread schedules (harness owns the schedule)",
            "Generated operation sequences on shared wallet/node objects checked against stateless recomputation on fresh "
            "objects; 2-4 threads interleaved at line granularity by a settrace scheduler driven by a generated choice "
            "list; free-running threads in the thorough tier; a second wallet of the other network on the shared root; one "
            "250..255-level derive_path request from a caller 180 frames below the recursion limit.", "5/C13"),
    "C14": ("differential PBT full wallet vs watch-only wallet + object-graph scan",
            "Export nodes at depth 0..5 under all public versions of the network, normal sub-paths, five address kinds; "
            "every private request must raise or be None; the watch-only object graph is scanned for private scalars; "
            "full-wallet activity precedes the watch-only requests in the same process; export depths up to 254; exported "
            "account nodes must refuse bip44/49/84(account); bulk "
            "children straddling 2^31; full vs watch-only agreement on invalid children under a scripted PRF; watch-only "
            "wallets built from a stream positioned inside back-to-back keys; threads on one watch-only wallet.", "5/C14"),
    "C15": ("PBT with independent secret-set oracle over every leaf of the filtered output",
            "Secret set computed by the reference (not from the output's layout); every key and string leaf at every depth "
            "classified and substring-checked; public identity both ways; empty intervals; several wallets filtered in "
            "one process; CLI route with the paranoia flag in every position/abbreviation (accepted lines must filter); a "
            "filtered export racing unfiltered output of the same wallet under the deterministic scheduler.", "5/C15"),
    "C16": ("PBT with independent network classifier over every emitted string",
            "Both networks x seeds x accounts x intervals x node paths incl. coin-type-1' paths on mainnet; re-import under "
            "all 12 versions; every string classified main/test/untagged by independent decoders; an other-network decoy "
            "wallet acts first; node-flag/wallet-flag mismatch; a mainnet and a testnet wallet generating concurrently "
            "under the deterministic scheduler; keys imported as str / bytes / stream with the network passed explicitly; two "
            "wallets of different networks around one node object.", "5/C16"),
    "C17": ("round-trip PBT + single-fault grammar for malformed paths",
            "Lists of length 0..5 over [0,2^32), both markers and roots, lookups on two wallets vs independent derivation, "
            "malformed strings (root/junk/range/empty), 6..12-level paths (one listed known finding); an independent path "
            "tokenizer as oracle for hypothesis- and atheris-generated strings; lookups on wallets rooted below the master; "
            "by_path / bip85.entropy lookups from several threads on one wallet; path objects edited after parsing; nodes "
            "that outlive a temporary wallet.", "5/C17"),
    "C18": ("fault-sequence PBT with chosen PRF outputs vs BIP32's validity predicate",
            "IL in {n, n+1, 2^256-1, uniform>=n, n-k} must raise (private, public, master, BIP85 secrets) and valid "
            "neighbours must equal the reference; invalid output at a generated level of derive_path, inside bulk "
            "generate_children intervals and inside the BIP32 walk of every BIP85 application.", "5/C18"),
    "C19": ("round-trip PBT + exhaustive push lengths + strict-parser differential on hostile input",
            "Every element length 0..522, random scripts incl. totals past 0xffff, all prefixes, byte edits, arbitrary "
            "binaries (hypothesis and atheris/libFuzzer with the strict parser as in-target oracle); varints at every band "
            "edge and all truncations.", "5/C19"),
    "C20": ("PBT over structured argv intents run through main() in process, vs fresh API call",
            "Five sub-commands, option order/spelling, file path states, one fault at a validator bound or none; outcome "
            "oracle on status/stdout/files; the complete fault x file-state grid; sentinel siblings of the requested file; "
            "named pipes, /dev/null and symlinked-directory/.. paths as --file; a closed stdout (EPIPE) on the real entry point; "
            "format-invalid values (word counts, sizes, key length) must not be accepted; subprocess re-runs "
            "through the real entry point (one listed known finding).", "5/C20"),
}
NOT_YET = {}


def main():
    built = [p for p in sorted(CHECKS) if os.path.exists(os.path.join(HERE, "vlib", "props", p.lower() + ".py"))]
    checks = []
    for p in built:
        tech, text, ref = CHECKS[p]
        checks.append({
            "property_id": p,
            "quick_cmd": "%s check.py %s --tier quick" % (PY, p),
            "thorough_cmd": "%s check.py %s --tier thorough" % (PY, p),
            "evidence_file": "evidence/%s.json" % p,
            "replay_cmd_template": "%s check.py %s --replay {path}" % (PY, p),
            "engine": "pbt-engine",
            "level_claimed": {"category": "exploration", "text": BASE + text, "design_ref": "DESIGN.md section " + ref},
            "level_note": NOTE,
            "technique": "property-based testing: " + tech,
        })
    na = [{"property_id": p, "reason": "check not built yet (planned: %s); will be claimed once its module exists" % CHECKS[p][0]}
          for p in sorted(CHECKS) if p not in built]
    m = {
        "version": 1,
        "setup_cmd": "%s tools/setup.py" % PY,
        "hooks": {
            "guard": "BTC_HD_WALLET_VERIF",
            "enable": "no source hooks exist: every substitution point (bip32.hmac_sha512, bip85.hmac_sha512, os.urandom, "
                      "random._urandom, sys.argv/stdio) is a module-level name replaced from outside per case; checks import "
                      "/repo's working tree directly (VERIF_REPO overrides the tree for sensitivity runs)",
            "baseline_off_cmd": "cd /repo && /venv/bin/python -m pytest -ra -q -p no:cacheprovider --timeout=900 "
                                "--continue-on-collection-errors",
            "source_commits": [],
            "add_only": True,
        },
        "engines": [{"name": "pbt-engine", "path": "vlib/engine.py", "serves_properties": built,
                     "kind_free_text": "hypothesis-driven generated search + exhaustive sub-domain sweeps, sharded; "
                                       "reference models in vlib/ref; replay without the library"}],
        "checks": checks,
        "notes": "Exit 0 = held on everything explored; 1 = 'VIOLATION property=<id> replay=<path>'; 2 = harness error "
                 "(never a violation). known_findings.json lists open findings (KNOWN-FINDING lines, exit 0) and fixed ones "
                 "(regress/ replays run first in every tier). VERIF_SEED seeds every generated choice.",
        "not_applicable": na,
    }
    with open(os.path.join(HERE, "MANIFEST.json"), "w") as f:
        json.dump(m, f, indent=1)
    print("MANIFEST.json: %d checks, %d not yet claimed" % (len(checks), len(na)))


if __name__ == "__main__":
    main()
