#!/bin/bash
# Runs every thorough check once (VERIF_SEED from the environment, default 1) and prints the summaries.
cd "$(dirname "$0")/.."
/venv/bin/python tools/setup.py >/dev/null 2>&1
for i in ${@:-$(seq -w 1 20)}; do
  start=$(date +%s)
  out=$(PYTHONHASHSEED=0 /venv/bin/python check.py C$i --tier thorough 2>&1); rc=$?
  echo "=== C$i rc=$rc $(( $(date +%s) - start ))s"
  echo "$out" | grep -E "SUMMARY|KNOWN-FINDING|VIOLATION|signature|detail|HARNESS|fuzz  |NOTE" | cut -c1-400
done
