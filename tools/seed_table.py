#!/venv/bin/python
"""Fold seed_eval.py output (JSON lines) into seeded/<id>/meta.json ("confirmed" block) and print a markdown table."""
import json, os, sys

log = sys.argv[1]
rows = []
for line in open(log):
    line = line.strip()
    if not line.startswith("{"):
        continue
    r = json.loads(line)
    d = os.path.join("/verif/seeded", r["id"])
    mp = os.path.join(d, "meta.json")
    meta = json.load(open(mp))
    caught = [p for p, v in r["checks"].items() if v["exit"] == 1]
    conf = meta.get("confirmed", {})
    if "demo_clean" in r:
        conf.update({
            "how": "tools/seed_eval.py: scratch copy of /repo's btc_hd_wallet+tests, demo.py on the clean copy, patch applied "
                   "with patch -p1, demo.py again, the repository's test-suite (one sandbox-dependent test deselected), then "
                   "the quick check(s) with VERIF_REPO pointing at the patched copy; copy removed afterwards",
            "demo_exit_on_clean_tree": r.get("demo_clean"), "demo_exit_with_patch": r.get("demo_patched"),
            "repo_tests_with_patch": r.get("tests")})
    conf.setdefault("checks", {})
    for p, v in r["checks"].items():
        conf["checks"][p] = {"quick_exit": v["exit"], "signatures": v["signatures"]}
    meta["confirmed"] = conf
    json.dump(meta, open(mp, "w"), indent=1)
    rows.append((r["id"], meta.get("title", ""), meta.get("needs_to_manifest", "")[:110].replace("\n", " "),
                 ", ".join(caught) or "MISSED", "; ".join(sorted({s for p in caught for s in r["checks"][p]["signatures"]})[:2])))
print("| seeded change | what it does | needs | caught by (quick) | first signatures |")
print("|---|---|---|---|---|")
for r in rows:
    print("| %s | %s | %s | %s | %s |" % tuple(str(x).replace("|", "/") for x in r))
