#!/venv/bin/python
"""Fold seed_eval.py output (JSON lines) into seeded/<id>/meta.json ("confirmed" block) and print a markdown table."""
import json, os, sys

logs = sys.argv[1:]
rows = []
latest = {}
for log in logs:                      # later logs override earlier ones (same seed id)
    for line in open(log):
        line = line.strip()
        if not line.startswith("{"):
            continue
        r = json.loads(line)
        if r["id"] in latest and "demo_clean" in latest[r["id"]] and "demo_clean" not in r:
            r = dict(latest[r["id"]], checks=r["checks"])
        latest[r["id"]] = r
for sid in sorted(latest):
    r = latest[sid]
    d = os.path.join("/verif/seeded", r["id"])
    mp = os.path.join(d, "meta.json")
    meta = json.load(open(mp))
    caught = [p for p, v in r["checks"].items() if v["exit"] == 1]
    conf = meta.get("confirmed", {})
    if "demo_clean" in r:
        conf.update({
            "how": "tools/seed_eval.py: scratch copy of /repo's btc_hd_wallet+tests, demo.py on the clean copy, patch applied "
                   "with patch -p1, demo.py again, the repository's test-suite (one sandbox-dependent test deselected), then "
                   "the quick check(s) with VERIF_REPO pointing at the patched copy; copy removed afterwards",
            "demo_exit_on_clean_tree": r.get("demo_clean"), "demo_exit_with_patch": r.get("demo_patched"),
            "repo_tests_with_patch": r.get("tests")})
    conf.setdefault("checks", {})
    for p, v in r["checks"].items():
        conf["checks"][p] = {"quick_exit": v["exit"], "signatures": v["signatures"]}
    meta["confirmed"] = conf
    json.dump(meta, open(mp, "w"), indent=1)
    verdict = ", ".join(caught) or "MISSED"
    if meta.get("retired"):
        verdict = "retired (%s)" % (", ".join(caught) or "not reported")
    elif meta.get("beyond_reach") and not caught:
        verdict = "MISSED (acknowledged: beyond reach)"
    rows.append((r["id"], meta.get("title", ""), meta.get("needs_to_manifest", "")[:110].replace("\n", " "),
                 verdict, "; ".join(sorted({s for p in caught for s in r["checks"][p]["signatures"]})[:2])))
print("| seeded change | what it does | needs | caught by (quick) | first signatures |")
print("|---|---|---|---|---|")
for r in rows:
    print("| %s | %s | %s | %s | %s |" % tuple(str(x).replace("|", "/") for x in r))
