#!/venv/bin/python
"""Offline, idempotent set-up: make sure hypothesis is importable by /venv's interpreter (installing it from the
local wheelhouse if it is not) and that the reference models pass their self-tests."""
import importlib
import os
import subprocess
import sys

HERE = os.path.dirname(os.path.dirname(os.path.abspath(__file__)))
sys.path.insert(0, HERE)


def ensure(mod, pkg):
    try:
        importlib.import_module(mod)
        return
    except ImportError:
        pass
    subprocess.check_call([sys.executable, "-m", "pip", "install", "--no-index", "--find-links",
                           "/opt/veriftools/wheels", pkg])
    importlib.invalidate_caches()
    importlib.import_module(mod)


ensure("hypothesis", "hypothesis")
# atheris (coverage-guided campaigns of C10/C11/C17/C19) lives beside the checkout, not in /venv
from vlib import engine  # noqa: E402
print("atheris available:", engine.ensure_atheris())
from vlib import ref  # noqa: E402
ref.selftest_all()
for d in ("evidence", "replays", ".work"):
    os.makedirs(os.path.join(HERE, d), exist_ok=True)
print("setup ok: hypothesis %s, reference models self-tested" % importlib.import_module("hypothesis").__version__)
