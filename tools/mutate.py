#!/venv/bin/python
"""Sensitivity helper: apply a textual mutant to a scratch copy of /repo, run a check against it
(VERIF_REPO), optionally the repo's own tests, and remove the copy.

usage: mutate.py PROP FILE OLD NEW [--tests] [--tier quick]
       mutate.py PROP --patch file.diff [--tests]
"""
import argparse, os, shutil, subprocess, sys, tempfile

ap = argparse.ArgumentParser()
ap.add_argument("prop")
ap.add_argument("file", nargs="?")
ap.add_argument("old", nargs="?")
ap.add_argument("new", nargs="?")
ap.add_argument("--patch")
ap.add_argument("--tests", action="store_true")
ap.add_argument("--tier", default="quick")
ap.add_argument("--count", type=int, default=1)
a = ap.parse_args()
d = tempfile.mkdtemp(prefix="bhw-mut-")
try:
    for sub in ("btc_hd_wallet", "tests"):
        shutil.copytree(os.path.join("/repo", sub), os.path.join(d, sub),
                        ignore=shutil.ignore_patterns("__pycache__"))
    if a.patch:
        subprocess.check_call(["patch", "-p1", "-s", "-d", d, "-i", os.path.abspath(a.patch)])
    else:
        p = os.path.join(d, a.file)
        s = open(p).read()
        old = a.old.encode().decode("unicode_escape")
        new = a.new.encode().decode("unicode_escape")
        if s.count(old) != a.count:
            print("MUTATE: pattern occurs %d times, expected %d" % (s.count(old), a.count)); sys.exit(3)
        open(p, "w").write(s.replace(old, new))
    if a.tests:
        r = subprocess.run(["/venv/bin/python", "-m", "pytest", "-q", "-x", "-p", "no:cacheprovider",
                            "--deselect", "tests/test_parser.py::TestArgumentParsing::test_invalid_file_argument",
                            "tests"], cwd=d, capture_output=True, text=True)
        print("MUTATE: repo tests:", r.stdout.strip().splitlines()[-1] if r.stdout.strip() else r.stderr[-300:])
    env = dict(os.environ, VERIF_REPO=d)
    rcs = []
    for prop in a.prop.split(","):
        r = subprocess.run(["/venv/bin/python", "/verif/check.py", prop, "--tier", a.tier], env=env,
                           capture_output=True, text=True)
        lines = [l for l in r.stdout.splitlines() if l.startswith(("VIOLATION", "  signature", "  detail", "HARNESS", "SUMMARY"))]
        print("\n".join(lines[:14]))
        if r.returncode == 2:
            print(r.stdout[-1500:], r.stderr[-1500:])
        print("MUTATE: %s exit=%d %s" % (prop, r.returncode, "KILLED" if r.returncode == 1 else "SURVIVED" if r.returncode == 0 else "ERROR"))
        rcs.append(r.returncode)
finally:
    shutil.rmtree(d, ignore_errors=True)
    shutil.rmtree("/verif/replays", ignore_errors=True) if os.environ.get("MUT_KEEP") is None else None
