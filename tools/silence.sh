#!/bin/bash
# Runs every quick check at several VERIF_SEED values; prints anything that is not quiet.
cd "$(dirname "$0")/.."
/venv/bin/python tools/setup.py >/dev/null 2>&1
seeds="${@:-2 3 4 5 6}"
bad=0
for s in $seeds; do
  for i in $(seq -w 1 20); do
    out=$(VERIF_SEED=$s PYTHONHASHSEED=0 /venv/bin/python check.py C$i --tier quick 2>&1); rc=$?
    if [ $rc -ne 0 ] || echo "$out" | grep -q -E "VIOLATION|HARNESS"; then
      echo "=== seed=$s C$i rc=$rc"; echo "$out" | grep -E "VIOLATION|signature|detail|HARNESS|Error|error" | head -20; bad=$((bad+1))
    else
      echo "ok seed=$s C$i $(echo "$out" | grep SUMMARY | sed 's/.*evaluations/evaluations/')"
    fi
  done
done
echo "NOT-QUIET=$bad"
