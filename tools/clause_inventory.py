#!/venv/bin/python
"""Regenerates the clause inventory table of DESIGN.md section 5.0 from the clause definitions (in place)."""
import os, re, sys
HERE = os.path.dirname(os.path.dirname(os.path.abspath(__file__)))
sys.path.insert(0, HERE)
from vlib import engine
engine.bind_repo()
rows = ["| property | clause | generated quick / thorough | enumeration | coverage-guided | -O |", "|---|---|---|---|---|---|"]
for i in range(1, 21):
    pid = "C%02d" % i
    mod = engine.load_prop(pid)
    opt = set(getattr(mod, "OPTIMIZED", []) or [])
    for c in mod.clauses():
        gen = "%s / %s" % (c.n.get("quick", "-"), c.n.get("thorough", "-")) if (c.gen is not None and c.n) else "-"
        enum = (c.enum_desc or "yes") if c.enum is not None else "-"
        fz = "-"
        if c.fuzz:
            fz = "%s x %s / %s x %s" % (c.fuzz["runs"]["quick"], c.fuzz["campaigns"]["quick"], c.fuzz["runs"]["thorough"], c.fuzz["campaigns"]["thorough"])
        rows.append("| %s | %s | %s | %s | %s | %s |" % (pid, c.name, gen, enum.replace("|", "/"), fz, "yes" if c.name in opt else "-"))
p = os.path.join(HERE, "DESIGN.md")
s = open(p).read()
m = re.search(r"\| property \| clause \| generated quick / thorough \|.*?\n\n", s, re.S)
s = s[:m.start()] + "\n".join(rows) + "\n\n" + s[m.end():]
open(p, "w").write(s)
print("%d clauses" % (len(rows) - 2))
