#!/venv/bin/python
"""False-alarm resistance: apply each property-PRESERVING patch in /verif/benign to a scratch copy and run every
quick check against it. Any VIOLATION (exit 1) or harness error (exit 2) here is a defect of the machinery.

usage: benign_eval.py [names...] [--props C01,C02]
"""
import argparse, glob, json, os, shutil, subprocess, sys, tempfile
from concurrent.futures import ThreadPoolExecutor

ap = argparse.ArgumentParser()
ap.add_argument("names", nargs="*")
ap.add_argument("--props", default=None)
ap.add_argument("--jobs", type=int, default=2)
ap.add_argument("--by-files", action="store_true",
                help="per patch, run only the checks of properties anchored in a file the patch touches (properties.jsonl)")
ap.add_argument("--skip-tests", action="store_true")
a = ap.parse_args()
ANCHORS = {}
for _l in open("/verif/properties.jsonl"):
    _o = json.loads(_l)
    ANCHORS[_o["id"]] = set(_o["anchors"]["files"])
ALL = ["C%02d" % i for i in range(1, 21)]
props = a.props.split(",") if a.props else ALL
diffs = sorted(glob.glob("/verif/benign/*.diff"))
if a.names:
    diffs = [d for d in diffs if any(n in d for n in a.names)]


def run(diff):
    name = os.path.basename(diff)[:-5]
    tmp = tempfile.mkdtemp(prefix="bhw-benign-")
    out = {"name": name, "alarms": {}}
    try:
        for sub in ("btc_hd_wallet", "tests"):
            shutil.copytree(os.path.join("/repo", sub), os.path.join(tmp, sub), ignore=shutil.ignore_patterns("__pycache__"))
        r = subprocess.run(["patch", "-p1", "-s", "-d", tmp, "-i", diff], capture_output=True, text=True)
        if r.returncode:
            out["patch_failed"] = r.stdout + r.stderr
            return out
        env = dict(os.environ, PYTHONPATH=tmp, PYTHONDONTWRITEBYTECODE="1")
        mine = props
        if a.by_files:
            touched = {l.split(" b/", 1)[1].strip() for l in open(diff) if l.startswith("diff --git ") and " b/" in l}
            mine = [p_ for p_ in props if ANCHORS[p_] & touched]
            out["checks_run"] = mine
        r = subprocess.run(["/venv/bin/python", "-m", "pytest", "-q", "-p", "no:cacheprovider", "--deselect",
                            "tests/test_parser.py::TestArgumentParsing::test_invalid_file_argument", "tests"],
                           cwd=tmp, env=env, capture_output=True, text=True)
        out["tests"] = r.stdout.strip().splitlines()[-1] if r.stdout.strip() else "?"
        env2 = dict(os.environ, VERIF_REPO=tmp, VERIF_WORKERS="8")
        for p in mine:
            r = subprocess.run(["/venv/bin/python", "/verif/check.py", p, "--tier", "quick"], env=env2, capture_output=True, text=True)
            if r.returncode != 0:
                out["alarms"][p] = {"exit": r.returncode, "lines": [l for l in r.stdout.splitlines() if l.startswith(("VIOLATION", "  signature", "  detail", "HARNESS"))][:9] or r.stdout[-800:].splitlines()}
    finally:
        shutil.rmtree(tmp, ignore_errors=True)
    print(json.dumps(out), flush=True)
    return out


with ThreadPoolExecutor(a.jobs) as ex:
    res = list(ex.map(run, diffs))
bad = [r for r in res if r["alarms"] or r.get("patch_failed")]
print("BENIGN PATCHES: %d, with alarms: %d" % (len(res), len(bad)))
